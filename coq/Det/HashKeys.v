(* Hash-keyed lookups and the Hash/Eq contract.
   A std HashMap is modelled as buckets indexed by the hash value; `RandomState` picks a different hash
   function for every map and every process.  If the hash function respects the key equality
   (k == k' -> hash k = hash k'), membership does not depend on which hash function was picked; if it does
   not (sylt_parser::Identifier before /repo 1fc1000: Hash derived over name AND span, PartialEq on the name
   only), `contains_key` of an equal key can miss, depending on the random state. *)
From Coq Require Import List NArith Bool.
Import ListNotations.

Section HashKeys.
  Variable K : Type.
  Variable eqb : K -> K -> bool.

  Definition bmap := N -> list K.
  Definition bempty : bmap := fun _ => [].
  Definition contains (h : K -> N) (m : bmap) (k : K) : bool := existsb (eqb k) (m (h k)).
  Definition binsert (h : K -> N) (m : bmap) (k : K) : bmap :=
    fun x => if N.eqb x (h k) then k :: m x else m x.
  (* what statement.rs does for blob fields / enum variants: reject a key that is already there *)
  Definition insert_new (h : K -> N) (st : bmap * bool) (k : K) : bmap * bool :=
    let (m, dup) := st in
    if contains h m k then (m, true) else (binsert h m k, dup).
  Definition build (h : K -> N) (ks : list K) : bmap := fold_left (binsert h) ks bempty.
  Definition has_duplicate (h : K -> N) (ks : list K) : bool := snd (fold_left (insert_new h) ks (bempty, false)).

  Definition respects (h : K -> N) : Prop := forall a b, eqb a b = true -> h a = h b.

  Lemma build_bucket : forall h ks m x k,
    In k (fold_left (binsert h) ks m x) <-> In k (m x) \/ (In k ks /\ h k = x).
  Proof.
    intros h ks; induction ks as [|a ks IH]; intros m x k; cbn [fold_left].
    - split; [intros H; left; exact H|intros [H|[[] _]]; exact H].
    - rewrite IH. unfold binsert at 1. destruct (N.eqb_spec x (h a)) as [E|E].
      + cbn [In]. split.
        * intros [[H|H]|[H1 H2]].
          -- right. subst a. split; [left; reflexivity|symmetry; exact E].
          -- left; exact H.
          -- right; split; [right; exact H1|exact H2].
        * intros [H|[[H|H] H2]].
          -- left; right; exact H.
          -- left; left; exact H.
          -- right; split; assumption.
      + split.
        * intros [H|[H1 H2]]; [left; exact H|right; split; [right; exact H1|exact H2]].
        * intros [H|[[H|H] H2]].
          -- left; exact H.
          -- subst a. exfalso. apply E. symmetry; exact H2.
          -- right; split; assumption.
  Qed.

  (* membership after any sequence of insertions is the specification "some inserted key is equal",
     whatever hash function was picked -- provided it respects the key equality *)
  Theorem contains_spec : forall h, respects h -> forall ks k,
    contains h (build h ks) k = existsb (eqb k) ks.
  Proof.
    intros h Hr ks k. unfold contains, build.
    destruct (existsb (eqb k) ks) eqn:E.
    - apply existsb_exists in E. destruct E as [k' [Hin He]].
      apply existsb_exists. exists k'. split; [|exact He].
      apply build_bucket. right. split; [exact Hin|]. symmetry. apply Hr. exact He.
    - destruct (existsb (eqb k) (fold_left (binsert h) ks bempty (h k))) eqn:E2; [|reflexivity].
      apply existsb_exists in E2. destruct E2 as [k' [Hin He]].
      apply build_bucket in Hin. destruct Hin as [[]|[Hin _]].
      assert (existsb (eqb k) ks = true) as X by (apply existsb_exists; exists k'; split; assumption).
      rewrite X in E. discriminate.
  Qed.

  Theorem contains_independent_of_hash : forall h1 h2, respects h1 -> respects h2 -> forall ks k,
    contains h1 (build h1 ks) k = contains h2 (build h2 ks) k.
  Proof. intros h1 h2 H1 H2 ks k. rewrite (contains_spec h1 H1), (contains_spec h2 H2). reflexivity. Qed.

  (* the duplicate check of the parser: same verdict for every hash function that respects equality *)
  Fixpoint dup_spec (seen : list K) (ks : list K) : bool :=
    match ks with
    | [] => false
    | k :: ks' => if existsb (eqb k) seen then orb true (dup_spec seen ks') else dup_spec (seen ++ [k]) ks'
    end.

  Lemma insert_new_spec : forall h, respects h -> forall ks seen dup,
    snd (fold_left (insert_new h) ks (build h seen, dup)) = orb dup (dup_spec seen ks).
  Proof.
    intros h Hr ks; induction ks as [|k ks IH]; intros seen dup; cbn [fold_left dup_spec].
    - cbn. destruct dup; reflexivity.
    - unfold insert_new at 2. rewrite (contains_spec h Hr).
      destruct (existsb (eqb k) seen) eqn:E.
      + rewrite IH. cbn. destruct dup; reflexivity.
      + replace (binsert h (build h seen) k) with (build h (seen ++ [k])).
        * apply IH.
        * unfold build. rewrite fold_left_app. reflexivity.
  Qed.

  Theorem has_duplicate_independent_of_hash : forall h1 h2, respects h1 -> respects h2 -> forall ks,
    has_duplicate h1 ks = has_duplicate h2 ks.
  Proof.
    intros h1 h2 H1 H2 ks. unfold has_duplicate.
    change (bempty, false) with (build h1 [], false) at 1.
    change (bempty, false) with (build h2 [], false).
    rewrite (insert_new_spec h1 H1), (insert_new_spec h2 H2). reflexivity.
  Qed.
End HashKeys.

(* When the hash looks at more than the equality does, the verdict depends on the hash function:
   keys are (name, span) pairs compared by name; h1 hashes the name, h2 hashes name and span. *)
Definition name_eqb (a b : N * N) : bool := N.eqb (fst a) (fst b).
Theorem inconsistent_hash_changes_the_verdict :
  exists (h1 h2 : N * N -> N) ks,
    respects (N * N) name_eqb h1 /\
    has_duplicate (N * N) name_eqb h1 ks = true /\ has_duplicate (N * N) name_eqb h2 ks = false.
Proof.
  exists (fun k => fst k), (fun k => (fst k + snd k)%N), [(1, 0); (1, 1)]%N.
  split; [|split; vm_compute; reflexivity].
  intros a b H. unfold name_eqb in H. apply N.eqb_eq in H. exact H.
Qed.
