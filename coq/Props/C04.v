(* C04 -- Constants are immutable and pure functions stay pure.
   Only pinned statements, `exact`, Examples / refutation witnesses by vm_compute, and Print Assumptions. *)
From Coq Require Import String List NArith ZArith PArith Bool FMapPositive.
From Sylt Require Import Syntax.Resolved Types.TyGraph Types.Tc Types.Ctx Types.TcInv Types.Reject Types.Mismatch Types.Purity Types.Shapes.
Import ListNotations.
Local Open Scope string_scope.

(* const_assign_rejected: an assignment whose target is a variable the resolver marked Const (a `::`
   definition, a parameter, a case binding) is rejected at every statement position, in every TypeCtx,
   every well-formed state and with every fuel. *)
Theorem C04_const_assign_rejected : forall kinds G (PG : gpres G) v op rsp value sp,
  PositiveMap.find (N.succ_pos v) kinds = Some Const ->
  forall f,
    (forall C ctx s, wf s -> is_shole_e C = true ->
       notok (r_expr (afix kinds G f) (plug_e (ERead v rsp) (SAssignment op (ERead v rsp) value sp) C) ctx s)) /\
    (forall C ctx s, wf s -> is_shole_s C = true ->
       notok (r_stmt (afix kinds G f) (plug_s (ERead v rsp) (SAssignment op (ERead v rsp) value sp) C) ctx s)).
Proof. exact Purity.const_assign_rejected. Qed.

(* the kinds table the checker uses is the resolver's variable table *)
Theorem C04_kinds_of_var : forall vars k v,
  nth_error vars k = Some v ->
  PositiveMap.find (N.succ_pos (N.of_nat k)) (kinds_of vars 1 (PositiveMap.empty varkind)) = Some (v_kind v).
Proof. exact Purity.kinds_of_var. Qed.

(* pure_ctx_monotone: the TypeCtx at every position inside a `pu` function has inside_pure = true *)
Theorem C04_pure_ctx : 
  (forall C ctx, inside_pure (ctx_at_e C ctx) = through_pure_e C || inside_pure ctx) /\
  (forall C ctx, inside_pure (ctx_at_s C ctx) = through_pure_s C || inside_pure ctx).
Proof. exact Shapes.pure_ctx. Qed.

(* pure_rejects: an assignment, a `:=` definition or a read of a non-Const variable anywhere inside a `pu`
   function, at any nesting depth (closures, branches, loops), is rejected *)
Theorem C04_pure_rejects : forall kinds G (PG : gpres G) (e : expr) (st : stmt),
  forbidden_in_pure_expr kinds e -> forbidden_in_pure_stmt kinds st ->
  forall f,
    (forall C ctx s, wf s -> through_pure_e C || inside_pure ctx = true ->
                     notok (r_expr (afix kinds G f) (plug_e e st C) ctx s)) /\
    (forall C ctx s, wf s -> through_pure_s C || inside_pure ctx = true ->
                     notok (r_stmt (afix kinds G f) (plug_s e st C) ctx s)).
Proof. exact Purity.pure_rejects. Qed.

(* a call under inside_pure whose callee does not have a `pu` function type is rejected *)
Theorem C04_pure_call_rejects : forall kinds G callee args sp f ctx s,
  inside_pure ctx = true ->
  (forall r fn s', r_expr (afix kinds G f) callee ctx s = Ok ((r, fn), s') ->
                   forall ps rt, head s' fn <> Some (HFn ps rt PPure)) ->
  notok (r_expr (afix kinds G (S f)) (ECall callee args sp) ctx s).
Proof. exact Purity.pure_call_local. Qed.

(* impure_not_pure: a `pu` function type does not unify with an `fn` function type *)
Theorem C04_impure_not_pure : forall g sp a b s pa ra pb rb,
  wf s -> head s a = Some (HFn pa ra PPure) -> head s b = Some (HFn pb rb PImpure) ->
  notok (unify (gfix g) sp a b s) /\ notok (unify (gfix g) sp b a s).
Proof. exact Purity.impure_not_pure. Qed.

(* The full statement "an impure function is never accepted where a `pu` type is declared" is FALSE of the
   model, as it is of the code (known finding C04-purity-laundering): purity is forgotten when the
   function goes through a variable annotated with a plain `fn` type (Purity::Undefined). *)
Definition C04_impure_where_pu_declared_statement : Prop :=
  forall fuel, typecheck fuel Purity.laundering_program <> Ok tt.
   (* laundering_program passes the `fn` function `impure` to the `pu`-typed parameter of takes_pu, through
      `y: fn int -> int = impure`; the direct call takes_pu(impure) is rejected (Purity.direct_rejected) *)

Theorem C04_impure_where_pu_declared_refuted : exists fuel, typecheck fuel Purity.laundering_program = Ok tt.
Proof. exact Purity.purity_laundering_accepted. Qed.

(* ---- non-vacuity *)
Definition sp0 : span := mkSpan 0 1 1 1 2.
Definition spl (l : N) : span := mkSpan 0 l l 1 2.

(* x :: 1 ; start :: pu do x = 2 end   -- rejected twice over; here: Assignability *)
Example C04_example_const :
  typecheck 40 (mkResolved [mkVar 0 "x" sp0 true Const; mkVar 1 "start" (spl 2) true Const]
     [SDefinition "x" 0 Const (TImplied sp0) (EInt 1 sp0) sp0;
      SDefinition "start" 1 Const (TImplied (spl 2))
        (EFunction "lambda" [] (TResolved BVoid (spl 2))
           [SAssignment Nop (ERead 0 (spl 3)) (EInt 2 (spl 3)) (spl 3)] false (spl 2)) (spl 2)])
  = Err (mkErr KAssignability (spl 3)) [].
Proof. vm_compute. reflexivity. Qed.

(* m := 1 ; start :: fn do p :: pu do if true do q :: m end end end  -- read of a mutable variable in a
   branch of a pure closure: Impurity *)
Example C04_example_pure_read :
  typecheck 40 (mkResolved [mkVar 0 "m" sp0 true Mutable; mkVar 1 "start" (spl 2) true Const;
                            mkVar 2 "p" (spl 3) false Const; mkVar 3 "q" (spl 5) false Const]
     [SDefinition "m" 0 Mutable (TImplied sp0) (EInt 1 sp0) sp0;
      SDefinition "start" 1 Const (TImplied (spl 2))
        (EFunction "lambda" [] (TResolved BVoid (spl 2))
           [SDefinition "p" 2 Const (TImplied (spl 3))
              (EFunction "lambda" [] (TResolved BVoid (spl 3))
                 [SStatementExpression
                    (EIf [IfBranch (Some (EBool true (spl 4)))
                            [SDefinition "q" 3 Const (TImplied (spl 5)) (ERead 0 (spl 5)) (spl 5)] (spl 4)] (spl 4)) (spl 4)]
                 true (spl 3)) (spl 3)] false (spl 2)) (spl 2)])
  = Err (mkErr KImpurity (spl 5)) [].
Proof. vm_compute. reflexivity. Qed.

Print Assumptions C04_const_assign_rejected.
Print Assumptions C04_kinds_of_var.
Print Assumptions C04_pure_ctx.
Print Assumptions C04_pure_rejects.
Print Assumptions C04_pure_call_rejects.
Print Assumptions C04_impure_not_pure.
Print Assumptions C04_impure_where_pu_declared_refuted.

(* ---- source tie: the hand-written model behind these theorems mirrors the files below; the digests of their
   functions regenerated from /repo on this run equal the reviewed ones (coq/Doc/DocSrcDigest.v).  Any edit of
   such a function breaks this obligation: the differential tie and the oracle then decide (tools/check.py). *)
From Sylt Require Doc.SrcDigest Doc.DocSrcDigest Gen.GenSrcDigest.
Theorem C04_model_sources_reviewed :
  Sylt.Doc.SrcDigest.sources_reviewed ["sylt-compiler/src/typechecker.rs"%string; "sylt-compiler/src/ty.rs"%string]
    Sylt.Doc.DocSrcDigest.doc_src_digests Sylt.Gen.GenSrcDigest.src_digests = true.
Proof. vm_compute. reflexivity. Qed.
Print Assumptions C04_model_sources_reviewed.
