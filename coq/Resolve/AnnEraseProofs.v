(* C08 at the resolver: erasing type annotations on the parser's AST (Resolve/AnnErase.v) does not change name
   resolution except in the annotations themselves.  If the resolver accepts a program with result r, it accepts
   the program with annotations rewritten by hd / hp / hr -- any functions under which a type that resolves still
   resolves, e.g. `implied` or the identity -- with a result r' that has the same variable table and, once every
   type component is replaced by one fixed type (Types/Erasure.v `strip`), the same statements:
   same_modulo_annotations r r'.  (The converse is false: an annotation may name an unknown type.) *)
From Coq Require Import String List NArith ZArith Bool Lia Arith.
From Sylt Require Types.Erasure.
From Sylt Require Import Syntax.Resolved Resolve.PAst Resolve.Resolver Resolve.AnnErase
     Resolve.ImportProofs Resolve.ImportFix Resolve.RefineProofs.
Import ListNotations.
Local Open Scope list_scope.

Notation sE := Sylt.Types.Erasure.strip_e.
Notation sS := Sylt.Types.Erasure.strip_s.
Notation sB := Sylt.Types.Erasure.strip_b.
Notation sC := Sylt.Types.Erasure.strip_c.
Notation ty0 := Sylt.Types.Erasure.ty0.

(* m' succeeds wherever m does, from the same state to the same state, with a related value *)
Definition la {A} (R : A -> A -> Prop) (m m' : M A) : Prop :=
  forall st a st', m st = Ok (a, st') -> exists a', m' st = Ok (a', st') /\ R a a'.

Lemma la_refl {A} (R : A -> A -> Prop) (m : M A) : (forall a, R a a) -> la R m m.
Proof. intros HR st a st' E. exists a. auto. Qed.

Lemma la_ret {A} (R : A -> A -> Prop) a a' : R a a' -> la R (ret a) (ret a').
Proof. intros H st b st' E. inversion E; subst. exists a'. split; [reflexivity|exact H]. Qed.

Lemma la_bind {A B} (RA : A -> A -> Prop) (RB : B -> B -> Prop) (m m' : M A) (k k' : A -> M B) :
  la RA m m' -> (forall a a', RA a a' -> la RB (k a) (k' a')) -> la RB (bind m k) (bind m' k').
Proof.
  intros Hm Hk st b st' E. apply bind_ok in E as (a & s1 & E1 & E2).
  destruct (Hm _ _ _ E1) as (a' & E1' & Ra). destruct (Hk a a' Ra _ _ _ E2) as (b' & E2' & Rb).
  exists b'. split; [|exact Rb]. unfold bind. rewrite E1'. exact E2'.
Qed.

Lemma la_lift {A} (R : A -> A -> Prop) (g g' : rstate -> res A) :
  (forall st a, g st = Ok a -> exists a', g' st = Ok a' /\ R a a') -> la R (lift g) (lift g').
Proof.
  intros H st a st' E. unfold lift in E. destruct (g st) as [x| | |] eqn:Eg; inversion E; subst.
  destruct (H _ _ Eg) as (a' & E' & Ra). exists a'. unfold lift. rewrite E'. auto.
Qed.

Lemma la_mapM {X X' Y} (R : Y -> Y -> Prop) (h : X -> X') (G : X -> M Y) (G' : X' -> M Y) l :
  (forall x, In x l -> la R (G x) (G' (h x))) -> la (Forall2 R) (mapM G l) (mapM G' (map h l)).
Proof.
  induction l as [|x l IH]; intros H; cbn [mapM map]; [apply la_ret; constructor|].
  eapply la_bind; [apply H; left; reflexivity|]. intros y y' Ry.
  eapply la_bind; [apply IH; intros z Hz; apply H; right; exact Hz|]. intros ys ys' Rys.
  apply la_ret. constructor; assumption.
Qed.

Definition Re (x x' : expr) : Prop := sE x' = sE x.
Definition Ro (o o' : option stmt) : Prop :=
  match o, o' with Some s, Some s' => sS s' = sS s | None, None => True | _, _ => False end.
Definition Rl (l l' : list stmt) : Prop := map sS l' = map sS l.
Definition Res (l l' : list expr) : Prop := map sE l' = map sE l.

Lemma Forall2_Res l l' : Forall2 Re l l' -> Res l l'.
Proof. unfold Res. induction 1 as [|x x' l l' Hx _ IH]; cbn; [reflexivity|]. rewrite Hx, IH. reflexivity. Qed.

Lemma la_block (h : pstmt -> pstmt) (rs rs' : pstmt -> M (option stmt)) l :
  (forall x, In x l -> la Ro (rs x) (rs' (h x))) -> la Rl (block_with rs l) (block_with rs' (map h l)).
Proof.
  induction l as [|x l IH]; intros H; cbn [block_with map]; [apply la_ret; reflexivity|].
  eapply la_bind; [apply H; left; reflexivity|]. intros o o' Rop.
  eapply la_bind; [apply IH; intros z Hz; apply H; right; exact Hz|]. intros rest rest' Rr.
  apply la_ret. unfold Rl in *. destruct o, o'; cbn in Rop; try contradiction; cbn [map]; [rewrite Rop, Rr|]; auto.
Qed.

Section Sim.
Variables hd hp hr : pty -> pty.
Hypothesis Hd : forall st t t', ty_r st t = Ok t' -> exists t'', ty_r st (hd t) = Ok t''.
Hypothesis Hp : forall st t t', ty_r st t = Ok t' -> exists t'', ty_r st (hp t) = Ok t''.
Hypothesis Hr : forall st t t', ty_r st t = Ok t' -> exists t'', ty_r st (hr t) = Ok t''.
Variable fl : rflags.

Notation ea_e := (ea_e hd hp hr).
Notation ea_a := (ea_a hd hp hr).
Notation ea_b := (ea_b hd hp hr).
Notation ea_c := (ea_c hd hp hr).
Notation ea_s := (ea_s hd hp hr).

Definition Ae (f : nat) : Prop := forall e, la Re (expr_r fl f e) (expr_r fl f (ea_e e)).
Definition Aa (f : nat) : Prop := forall a, la Re (assign_r fl f a) (assign_r fl f (ea_a a)).
Definition As (f : nat) : Prop := forall s, la Ro (stmt_r fl f s) (stmt_r fl f (ea_s s)).

Lemma is_function_ea v : is_function (ea_e v) = is_function v.
Proof. induction v; cbn [AnnErase.ea_e is_function]; auto. Qed.

Lemma la_ty (h : pty -> pty) (H : forall st t t', ty_r st t = Ok t' -> exists t'', ty_r st (h t) = Ok t'') t :
  la (fun _ _ : ty => True) (lift (fun st => ty_r st t)) (lift (fun st => ty_r st (h t))).
Proof. apply la_lift. intros st a E. destruct (H st t a E) as (t'' & E'). exists t''. auto. Qed.

Section Step.
Variable f : nat.
Hypothesis IHe : Ae f.
Hypothesis IHa : Aa f.
Hypothesis IHs : As f.

Lemma a_args l : la Res (mapM (expr_r fl f) l) (mapM (expr_r fl f) (map ea_e l)).
Proof.
  intros st a st' E. destruct (la_mapM Re ea_e (expr_r fl f) (expr_r fl f) l (fun x _ => IHe x) st a st' E) as (a' & E' & R).
  exists a'. split; [exact E'|apply Forall2_Res, R].
Qed.

Lemma a_blocks l : la Rl (block_with (stmt_r fl f) l) (block_with (stmt_r fl f) (map ea_s l)).
Proof. apply la_block. intros x _. apply IHs. Qed.

Definition Roe (o o' : option expr) : Prop :=
  match o, o' with Some x, Some x' => sE x' = sE x | None, None => True | _, _ => False end.

Lemma a_optM o : la Roe (optM (expr_r fl f) o) (optM (expr_r fl f) (match o with Some c => Some (ea_e c) | None => None end)).
Proof.
  destruct o as [c|]; cbn [optM]; [|apply la_ret; exact I].
  eapply la_bind; [apply IHe|]. intros y y' Ry. apply la_ret. exact Ry.
Qed.

Lemma a_binop op a b sp : la Re (binop_with (expr_r fl f) op a b sp) (binop_with (expr_r fl f) op (ea_e a) (ea_e b) sp).
Proof.
  unfold binop_with. eapply la_bind; [apply IHe|]. intros x x' Rx. eapply la_bind; [apply IHe|]. intros y y' Ry.
  apply la_ret. unfold Re in *. cbn [Erasure.strip_e]. rewrite Rx, Ry. reflexivity.
Qed.

Lemma a_uniop op a sp : la Re (uniop_with (expr_r fl f) op a sp) (uniop_with (expr_r fl f) op (ea_e a) sp).
Proof.
  unfold uniop_with. eapply la_bind; [apply IHe|]. intros x x' Rx. apply la_ret. unfold Re in *.
  cbn [Erasure.strip_e]. rewrite Rx. reflexivity.
Qed.

Definition Rid {A} (a a' : A) : Prop := a' = a.

Lemma astep_e : Ae (S f).
Proof.
  intros e. destruct e; cbn [AnnErase.ea_e expr_r]; try (apply la_refl; intros; reflexivity).
  - apply IHa.
  - apply a_binop.
  - apply a_binop.
  - apply a_binop.
  - apply a_binop.
  - apply a_uniop.
  - apply a_binop.
  - apply a_binop.
  - apply a_binop.
  - apply a_binop.
  - apply a_uniop.
  - apply IHe.
  - (* PIf *)
    eapply la_bind.
    { apply (la_mapM (fun b b' : ifbranch => sB b' = sB b) ea_b). intros b _. destruct b as [c body bsp].
      cbn [AnnErase.ea_b if_branch_with].
      eapply la_bind; [apply a_optM|]. intros c1 c1' Rc.
      eapply la_bind; [apply la_refl; intros; reflexivity|]. intros len len' ->.
      eapply la_bind; [apply a_blocks|]. intros b1 b1' Rb.
      eapply la_bind; [apply (la_refl Rid); intros; reflexivity|]. intros u u' _.
      apply la_ret. rewrite !Erasure.strip_b_eq. unfold Rl in Rb. rewrite Rb.
      destruct c1, c1'; cbn in Rc; try contradiction; [rewrite Rc|]; reflexivity. }
    intros brs brs' Rbrs. apply la_ret. unfold Re. rewrite !Erasure.strip_e_if. f_equal.
    induction Rbrs as [|x x' l l' Hx _ IH]; cbn; [reflexivity|]. rewrite Hx, IH. reflexivity.
  - (* PCase *)
    eapply la_bind; [apply IHe|]. intros tm tm' Rtm.
    eapply la_bind.
    { apply (la_mapM (fun b b' : casebranch => sC b' = sC b) ea_c). intros b _. destruct b as [pat v body].
      cbn [AnnErase.ea_c case_branch_with].
      eapply la_bind; [apply (la_refl Rid); intros; reflexivity|]. intros len len' ->.
      eapply la_bind; [apply (la_refl Rid); intros; reflexivity|]. intros v1 v1' ->.
      eapply la_bind; [apply a_blocks|]. intros b1 b1' Rb.
      eapply la_bind; [apply (la_refl Rid); intros; reflexivity|]. intros u u' _.
      apply la_ret. rewrite !Erasure.strip_c_eq. unfold Rl in Rb. rewrite Rb. reflexivity. }
    intros brs brs' Rbrs.
    eapply la_bind.
    { instantiate (1 := fun o o' : option (list stmt) => match o, o' with Some l, Some l' => map sS l' = map sS l | None, None => True | _, _ => False end).
      destruct fall_through as [ft|]; cbn [optM]; [|apply la_ret; exact I].
      eapply la_bind; [|intros y y' Ry; apply la_ret; exact Ry].
      eapply la_bind; [apply (la_refl Rid); intros; reflexivity|]. intros len len' ->.
      eapply la_bind; [apply a_blocks|]. intros b1 b1' Rb.
      eapply la_bind; [apply (la_refl Rid); intros; reflexivity|]. intros u u' _. apply la_ret. exact Rb. }
    intros ft1 ft1' Rft. apply la_ret. unfold Re in *. rewrite !Erasure.strip_e_case. rewrite Rtm. f_equal.
    + induction Rbrs as [|x x' l l' Hx _ IH]; cbn; [reflexivity|]. rewrite Hx, IH. reflexivity.
    + destruct ft1, ft1'; try contradiction; [rewrite Rft|]; reflexivity.
  - (* PFunction *)
    eapply la_bind; [apply (la_refl Rid); intros; reflexivity|]. intros ss ss' ->.
    eapply la_bind.
    { apply (la_mapM (fun p p' : string * N * span * ty => fst p' = fst p) (fun p : ident * pty => (fst p, hp (snd p)))).
      intros [n t] _. cbn [fst snd param_r].
      eapply la_bind; [apply (la_refl Rid); intros; reflexivity|]. intros v v' ->.
      eapply la_bind; [apply (la_ty hp Hp)|]. intros t1 t1' _. apply la_ret. reflexivity. }
    intros ps ps' Rps.
    eapply la_bind; [apply (la_ty hr Hr)|]. intros rt rt' _.
    eapply la_bind; [apply a_blocks|]. intros b1 b1' Rb.
    eapply la_bind; [apply (la_refl Rid); intros; reflexivity|]. intros u u' _.
    apply la_ret. unfold Re. rewrite !Erasure.strip_e_fun. unfold Rl in Rb. rewrite Rb. f_equal.
    induction Rps as [|x x' l l' Hx _ IH]; cbn; [reflexivity|]. rewrite Hx, IH. reflexivity.
  - (* PBlob *)
    eapply la_bind; [apply (la_refl Rid); intros; reflexivity|]. intros b b' ->.
    eapply la_bind; [apply (la_refl Rid); intros; reflexivity|]. intros sv sv' ->.
    eapply la_bind.
    { apply (la_mapM (fun p p' : string * expr => fst p' = fst p /\ sE (snd p') = sE (snd p))
                     (fun f0 : string * pexpr => (fst f0, ea_e (snd f0)))).
      intros [n v] _. cbn [fst snd blob_field_with]. rewrite is_function_ea.
      eapply la_bind; [apply (la_refl Rid); intros; reflexivity|]. intros ss ss' ->.
      eapply la_bind; [apply (la_refl Rid); intros; reflexivity|]. intros u u' _.
      eapply la_bind; [apply IHe|]. intros v1 v1' Rv.
      eapply la_bind; [apply (la_refl Rid); intros; reflexivity|]. intros u2 u2' _.
      apply la_ret. split; [reflexivity|exact Rv]. }
    intros fs fs' Rfs. apply la_ret. unfold Re. cbn [Erasure.strip_e]. f_equal.
    induction Rfs as [|x x' l l' [H1 H2] _ IH]; cbn; [reflexivity|]. rewrite H1, H2, IH. reflexivity.
  - eapply la_bind; [apply a_args|]. intros y y' Ry. apply la_ret. unfold Re, Res in *. cbn [Erasure.strip_e]. rewrite Ry. reflexivity.
  - eapply la_bind; [apply a_args|]. intros y y' Ry. apply la_ret. unfold Re, Res in *. cbn [Erasure.strip_e]. rewrite Ry. reflexivity.
Qed.

Lemma Re_read x x' : Re x x' -> forall v sp, x = ERead v sp -> x' = ERead v sp.
Proof. unfold Re. intros H v sp ->. destruct x'; cbn in H; try discriminate H. inversion H. reflexivity. Qed.

Lemma astep_a : Aa (S f).
Proof.
  intros a. destruct a; cbn [AnnErase.ea_a assign_r].
  - apply la_refl. intros; reflexivity.
  - eapply la_bind; [apply IHa|]. intros x x' Rx.
    destruct x; try (intros ? ? ? E; discriminate E).
    rewrite (Re_read _ _ Rx _ _ eq_refl).
    eapply la_bind; [apply IHe|]. intros y y' Ry. apply la_ret. unfold Re in *. cbn [Erasure.strip_e]. rewrite Ry. reflexivity.
  - eapply la_bind; [apply IHa|]. intros x x' Rx. eapply la_bind; [apply a_args|]. intros y y' Ry.
    apply la_ret. unfold Re, Res in *. cbn [Erasure.strip_e]. rewrite Rx, Ry. reflexivity.
  - eapply la_bind; [apply IHe|]. intros z z' Rz. eapply la_bind; [apply IHa|]. intros x x' Rx.
    eapply la_bind; [apply a_args|]. intros y y' Ry.
    apply la_ret. unfold Re, Res in *. cbn [Erasure.strip_e map]. rewrite Rx, Rz, Ry. reflexivity.
  - (* AAccess *)
    assert (E : forall st, access_namespace fl st (sp_file sp) (ea_a a) = access_namespace fl st (sp_file sp) a).
    { intros st. assert (C : chain_root (ea_a a) = chain_root a) by (clear; induction a; cbn; auto).
      assert (NF : forall n, namespace_file st n (ea_a a) = namespace_file st n a).
      { clear. induction a; intros n; cbn; auto. rewrite IHa. reflexivity. }
      unfold access_namespace, root_on_stack, namespace_list. rewrite C, NF. reflexivity. }
    eapply la_bind.
    { instantiate (1 := Rid). intros st x st' H. unfold lift in *. rewrite E. exists x. split; [exact H|reflexivity]. }
    intros ns ns' ->. destruct ns as [ns|]; [apply la_refl; intros; reflexivity|].
    eapply la_bind; [apply IHa|]. intros v v' Rv. apply la_ret. unfold Re in *. cbn [Erasure.strip_e]. rewrite Rv. reflexivity.
  - eapply la_bind; [apply IHa|]. intros x x' Rx. eapply la_bind; [apply IHe|]. intros y y' Ry.
    apply la_ret. unfold Re in *. cbn [Erasure.strip_e]. rewrite Rx, Ry. reflexivity.
  - apply IHe.
Qed.

Lemma astep_s : As (S f).
Proof.
  intros s. destruct s; cbn [AnnErase.ea_s stmt_r]; try (apply la_refl; intros [x|]; cbn; auto).
  - (* PAssignment *)
    eapply la_bind; [apply IHe|]. intros y y' Ry. eapply la_bind; [apply IHa|]. intros x x' Rx.
    apply la_ret. cbn. change (sS (SAssignment (assign_binop op) x' y' sp)) with (SAssignment (assign_binop op) (sE x') (sE y') sp).
    change (sS (SAssignment (assign_binop op) x y sp)) with (SAssignment (assign_binop op) (sE x) (sE y) sp).
    unfold Re in *. rewrite Rx, Ry. reflexivity.
  - (* PDefinition *)
    eapply la_bind; [apply (la_refl Rid); intros; reflexivity|]. intros stack stack' ->.
    eapply la_bind.
    { instantiate (1 := fun p p' : expr * N => sE (fst p') = sE (fst p) /\ snd p' = snd p).
      destruct stack as [|p0 rest].
      - eapply la_bind; [apply (la_refl Rid); intros; reflexivity|]. intros u u' _.
        eapply la_bind; [apply IHe|]. intros y y' Ry.
        eapply la_bind; [apply (la_refl Rid); intros; reflexivity|]. intros u2 u2' _.
        eapply la_bind; [apply (la_refl Rid); intros; reflexivity|]. intros v v' ->. apply la_ret. split; [exact Ry|reflexivity].
      - rewrite is_function_ea. destruct (is_function value).
        + eapply la_bind; [apply (la_refl Rid); intros; reflexivity|]. intros v v' ->.
          eapply la_bind; [apply IHe|]. intros y y' Ry. apply la_ret. split; [exact Ry|reflexivity].
        + eapply la_bind; [apply IHe|]. intros y y' Ry.
          eapply la_bind; [apply (la_refl Rid); intros; reflexivity|]. intros v v' ->. apply la_ret. split; [exact Ry|reflexivity]. }
    intros vv vv' [Rv Rn].
    eapply la_bind; [apply (la_ty hd Hd)|]. intros t1 t1' _.
    apply la_ret. cbn.
    change (sS (SDefinition (i_name i) (snd vv') kind t1' (fst vv') (i_span i)))
      with (SDefinition (i_name i) (snd vv') kind ty0 (sE (fst vv')) (i_span i)).
    change (sS (SDefinition (i_name i) (snd vv) kind t1 (fst vv) (i_span i)))
      with (SDefinition (i_name i) (snd vv) kind ty0 (sE (fst vv)) (i_span i)).
    rewrite Rv, Rn. reflexivity.
  - (* PLoop *)
    eapply la_bind; [apply IHe|]. intros c c' Rc. eapply la_bind; [apply IHs|]. intros b b' Rb.
    apply la_ret. cbn.
    change (sS (SLoop c' (match b' with Some b0 => [b0] | None => [] end) sp))
      with (SLoop (sE c') (map sS (match b' with Some b0 => [b0] | None => [] end)) sp).
    change (sS (SLoop c (match b with Some b0 => [b0] | None => [] end) sp))
      with (SLoop (sE c) (map sS (match b with Some b0 => [b0] | None => [] end)) sp).
    unfold Re in Rc. rewrite Rc. destruct b, b'; cbn in Rb; try contradiction; cbn [map]; [rewrite Rb|]; reflexivity.
  - (* PRet *)
    destruct value as [v0|]; [|apply la_refl; intros [x|]; cbn; auto].
    cbn [AnnErase.ea_s stmt_r optM].
    apply (la_bind (fun o o' : option expr => Ro (Some (SRet o sp)) (Some (SRet o' sp))) Ro);
      [|intros v v' Rv; apply la_ret; exact Rv].
    eapply la_bind; [apply IHe|]. intros y y' Ry. apply la_ret. cbn.
    change (SRet (Some (sE y')) sp = SRet (Some (sE y)) sp). unfold Re in Ry. rewrite Ry. reflexivity.
  - (* PBlock *)
    eapply la_bind; [apply (la_refl Rid); intros; reflexivity|]. intros len len' ->.
    eapply la_bind; [apply a_blocks|]. intros b b' Rb.
    eapply la_bind; [apply (la_refl Rid); intros; reflexivity|]. intros u u' _.
    apply la_ret. cbn. change (SBlock (map sS b') sp = SBlock (map sS b) sp). unfold Rl in Rb. rewrite Rb. reflexivity.
  - (* PStatementExpression *)
    eapply la_bind; [apply IHe|]. intros v v' Rv. apply la_ret. cbn.
    change (SStatementExpression (sE v') sp = SStatementExpression (sE v) sp). unfold Re in Rv. rewrite Rv. reflexivity.
Qed.

End Step.

Lemma a_all : forall f, Ae f /\ Aa f /\ As f.
Proof.
  induction f as [|f (IHe & IHa & IHs)].
  - split; [|split]; intros x st a st' E; discriminate E.
  - split; [apply astep_e; assumption|]. split; [apply astep_a; assumption|apply astep_s; assumption].
Qed.

End Sim.

(* ---------------------------------------------------------------------------------------------- *)
Section Top.
Variables hd hp hr : pty -> pty.
Hypothesis Hd : forall st t t', ty_r st t = Ok t' -> exists t'', ty_r st (hd t) = Ok t''.
Hypothesis Hp : forall st t t', ty_r st t = Ok t' -> exists t'', ty_r st (hp t) = Ok t''.
Hypothesis Hr : forall st t t', ty_r st t = Ok t' -> exists t'', ty_r st (hr t) = Ok t''.

Notation ea_e := (ea_e hd hp hr).
Notation ea_a := (ea_a hd hp hr).
Notation ea_s := (ea_s hd hp hr).

Lemma defined_ident_ea s : defined_ident (ea_s s) = defined_ident s.
Proof. destruct s; try reflexivity. destruct value; reflexivity. Qed.

Lemma pstmt_span_ea s : pstmt_span (ea_s s) = pstmt_span s.
Proof. destruct s; try reflexivity. destruct value; reflexivity. Qed.

Lemma add_definitions_ea ss : forall t st, add_definitions (map ea_s ss) t st = add_definitions ss t st.
Proof.
  induction ss as [|s ss IH]; intros t st; cbn [map add_definitions]; [reflexivity|].
  rewrite defined_ident_ea, pstmt_span_ea. destruct (defined_ident s) as [[i k]|]; [|apply IH].
  apply bind_ext; [reflexivity|]. intros v s1. destruct (ns_get t (i_name i)); [reflexivity|apply IH].
Qed.

Lemma pass1_ea ast st :
  for_each insert_namespace_and_add_definitions (erase_ann hd hp hr ast) st
  = for_each insert_namespace_and_add_definitions ast st.
Proof.
  unfold erase_ann. rewrite for_each_map. apply for_each_ext. intros m s.
  unfold insert_namespace_and_add_definitions, ea_module. cbn [m_stmts m_file].
  apply bind_ext; [intros s1; apply add_definitions_ea|reflexivity].
Qed.

Lemma rgv_ea f ss : forall st, resolve_global_variables f (map ea_s ss) st = resolve_global_variables f ss st.
Proof.
  induction ss as [|s ss IH]; intros st; cbn [map resolve_global_variables]; [reflexivity|].
  apply bind_ext; [|intros u s1; apply IH]. intros s1. destruct s; try reflexivity. destruct value; reflexivity.
Qed.

Lemma quiet_stmt_ea f s st : quiet_stmt f (ea_s s) st = quiet_stmt f s st.
Proof. destruct s; try reflexivity. destruct value; reflexivity. Qed.

Lemma quiet_round_ea ast st : quiet_round (erase_ann hd hp hr ast) st = quiet_round ast st.
Proof.
  unfold quiet_round, erase_ann. rewrite for_each_map. apply for_each_ext. intros m s.
  unfold quiet_pass, ea_module. cbn [m_stmts m_file]. rewrite for_each_map. apply for_each_ext. intros x s1.
  apply quiet_stmt_ea.
Qed.

Lemma import_rounds_ea ast n : forall st, import_rounds n (erase_ann hd hp hr ast) st = import_rounds n ast st.
Proof.
  induction n as [|n IH]; intros st; cbn [import_rounds]; [reflexivity|].
  rewrite quiet_round_ea. destruct (quiet_round ast st) as [[u s]| | |]; try reflexivity.
  destruct (Nat.eqb (names_count s) (names_count st)); [reflexivity|apply IH].
Qed.

Lemma import_items_ea ast : import_items (erase_ann hd hp hr ast) = import_items ast.
Proof.
  unfold import_items, erase_ann. induction ast as [|m ast IH]; cbn; [reflexivity|]. rewrite IH. f_equal.
  induction (m_stmts m) as [|s ss IHs]; cbn; [reflexivity|]. rewrite IHs. f_equal.
  destruct s; try reflexivity. destruct value; reflexivity.
Qed.

Lemma import_pass_ea b ast st : import_pass b (erase_ann hd hp hr ast) st = import_pass b ast st.
Proof.
  unfold import_pass. apply bind_ext.
  - intros s. destruct b; [|reflexivity]. rewrite import_items_ea. apply import_rounds_ea.
  - intros u s. unfold report_pass, erase_ann. rewrite for_each_map. apply for_each_ext. intros m s1.
    unfold ea_module. cbn [m_stmts m_file]. apply rgv_ea.
Qed.

Lemma flat_stmts_ea ast : flat_map m_stmts (erase_ann hd hp hr ast) = map ea_s (flat_map m_stmts ast).
Proof.
  unfold erase_ann. induction ast as [|m ast IH]; cbn; [reflexivity|]. rewrite IH, map_app. reflexivity.
Qed.

Lemma init_state_ea ast : init_state (erase_ann hd hp hr ast) = init_state ast.
Proof. unfold init_state, erase_ann. rewrite map_map. reflexivity. Qed.

Lemma depth_e_ea : forall e, depth_e (ea_e e) = depth_e e
with depth_a_ea : forall a, depth_a (ea_a a) = depth_a a
with depth_s_ea : forall s, depth_s (ea_s s) = depth_s s.
Proof.
  - destruct e; cbn [AnnErase.ea_e depth_e]; try reflexivity; try (now rewrite ?depth_e_ea, ?depth_a_ea).
    + f_equal. induction branches as [|b l IH]; cbn; [reflexivity|]. rewrite IH. f_equal.
      destruct b as [c body sp']. cbn. f_equal.
      * destruct c; [apply depth_e_ea|reflexivity].
      * induction body as [|a l' IH']; cbn; [reflexivity|]. now rewrite depth_s_ea, IH'.
    + f_equal. rewrite depth_e_ea. f_equal. f_equal.
      * induction branches as [|b l IH]; cbn; [reflexivity|]. rewrite IH. f_equal.
        destruct b. cbn. induction body as [|a l' IH']; cbn; [reflexivity|]. now rewrite depth_s_ea, IH'.
      * destruct fall_through as [l|]; [|reflexivity].
        induction l as [|a l' IH']; cbn; [reflexivity|]. now rewrite depth_s_ea, IH'.
    + f_equal. induction body as [|a l IH]; cbn; [reflexivity|]. now rewrite depth_s_ea, IH.
    + f_equal. induction fields as [|[k a] l IH]; cbn; [reflexivity|]. cbn in IH. now rewrite depth_e_ea, IH.
    + f_equal. induction values as [|a l IH]; cbn; [reflexivity|]. now rewrite depth_e_ea, IH.
    + f_equal. induction values as [|a l IH]; cbn; [reflexivity|]. now rewrite depth_e_ea, IH.
  - destruct a; cbn [AnnErase.ea_a depth_a]; try reflexivity; try (now rewrite ?depth_e_ea, ?depth_a_ea).
    + f_equal. rewrite depth_a_ea. f_equal. induction args as [|a0 l IH]; cbn; [reflexivity|]. now rewrite depth_e_ea, IH.
    + f_equal. rewrite depth_e_ea, depth_a_ea. f_equal. f_equal.
      induction args as [|a0 l IH]; cbn; [reflexivity|]. now rewrite depth_e_ea, IH.
  - destruct s; cbn [AnnErase.ea_s depth_s]; try reflexivity; try (now rewrite ?depth_e_ea, ?depth_a_ea, ?depth_s_ea).
    + destruct value as [v|]; cbn [AnnErase.ea_s depth_s]; [now rewrite depth_e_ea|reflexivity].
    + f_equal. induction statements as [|a l IH]; cbn; [reflexivity|]. now rewrite depth_s_ea, IH.
Qed.

Lemma fuel_of_ea ast : fuel_of (erase_ann hd hp hr ast) = fuel_of ast.
Proof.
  unfold fuel_of, erase_ann. f_equal. induction ast as [|m ast IH]; cbn; [reflexivity|]. rewrite IH. f_equal.
  induction (m_stmts m) as [|s l IHl]; cbn; [reflexivity|]. now rewrite depth_s_ea, IHl.
Qed.


(* the statement lists of two results, equal once every type component is replaced by one fixed type *)
Theorem resolve_fuel_erase_ann fl fuel ast r :
  resolve_fuel fl fuel ast = Ok r ->
  exists r', resolve_fuel fl fuel (erase_ann hd hp hr ast) = Ok r'
             /\ r_vars r' = r_vars r /\ map sS (r_stmts r') = map sS (r_stmts r).
Proof.
  unfold resolve_fuel, resolve_m. rewrite init_state_ea. intros H.
  assert (L : la Rl
    (_ <- for_each insert_namespace_and_add_definitions ast ;; _ <- import_pass (imports_fixpoint fl) ast ;;
     out <- block_with (stmt_r fl fuel) (flat_map m_stmts ast) ;;
     start <- lift (fun st => lookup_global st 0 "start") ;;
     match start with None => fail ENoStart (span_zero 0) | Some _ => ret out end)
    (_ <- for_each insert_namespace_and_add_definitions (erase_ann hd hp hr ast) ;;
     _ <- import_pass (imports_fixpoint fl) (erase_ann hd hp hr ast) ;;
     out <- block_with (stmt_r fl fuel) (flat_map m_stmts (erase_ann hd hp hr ast)) ;;
     start <- lift (fun st => lookup_global st 0 "start") ;;
     match start with None => fail ENoStart (span_zero 0) | Some _ => ret out end)).
  { eapply la_bind.
    { instantiate (1 := Rid). intros st a st' E. rewrite pass1_ea. exists a. split; [exact E|reflexivity]. }
    intros u u' _. eapply la_bind.
    { instantiate (1 := Rid). intros st a st' E. rewrite import_pass_ea. exists a. split; [exact E|reflexivity]. }
    intros u1 u1' _. rewrite flat_stmts_ea.
    eapply la_bind; [apply la_block; intros x _; apply (proj2 (proj2 (a_all hd hp hr Hd Hp Hr fl fuel)))|].
    intros out out' Rout.
    eapply la_bind; [apply (la_refl Rid); intros; reflexivity|]. intros start start' ->.
    destruct start; [apply la_ret; exact Rout|intros ? ? ? E; discriminate E]. }
  destruct ((_ <- for_each insert_namespace_and_add_definitions ast ;; _ <- import_pass (imports_fixpoint fl) ast ;;
             out <- block_with (stmt_r fl fuel) (flat_map m_stmts ast) ;;
             start <- lift (fun st => lookup_global st 0 "start") ;;
             match start with None => fail ENoStart (span_zero 0) | Some _ => ret out end) (init_state ast))
    as [[out st]| | |] eqn:E; try discriminate H.
  destruct (L _ _ _ E) as (out' & E' & R). rewrite E'. inversion H; subst. eexists. split; [reflexivity|].
  cbn [r_vars r_stmts]. split; [reflexivity|exact R].
Qed.

Theorem resolve_erase_ann fl ast r :
  resolve fl ast = Ok r ->
  exists r', resolve fl (erase_ann hd hp hr ast) = Ok r'
             /\ Sylt.Types.Erasure.same_modulo_annotations r r'.
Proof.
  unfold resolve. rewrite fuel_of_ea. intros H.
  destruct (resolve_fuel_erase_ann fl _ ast r H) as (r' & E & Hv & Hs). exists r'. split; [exact E|].
  unfold Sylt.Types.Erasure.same_modulo_annotations, Sylt.Types.Erasure.strip. rewrite Hv, Hs. reflexivity.
Qed.

End Top.

(* `implied` (and the identity) keep a resolving type resolving *)
Lemma implied_keeps st t t' : ty_r st t = Ok t' -> exists t'', ty_r st (implied t) = Ok t''.
Proof. intros _. eexists. reflexivity. Qed.
Lemma id_keeps st t t' : ty_r st t = Ok t' -> exists t'', ty_r st ((fun x => x) t) = Ok t''.
Proof. intros H. eauto. Qed.

Theorem resolve_erase_all fl ast r :
  resolve fl ast = Ok r ->
  exists r', resolve fl (erase_all_annotations ast) = Ok r' /\ Sylt.Types.Erasure.same_modulo_annotations r r'.
Proof. apply (resolve_erase_ann implied implied implied implied_keeps implied_keeps implied_keeps). Qed.
