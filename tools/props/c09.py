"""C09 -- names resolve lexically; consistent renaming changes nothing."""
import collections
import json
import os

import resolve_gen as rg
import resolved_io
import vlib

GEN = ["GenResolve", "GenSrcDigest"]
TRUSTED = [
    "Coq 8.16.1 kernel (coqc); vm_compute only for the refutation witnesses and the non-vacuity examples; no axioms",
    "translator tools/gens/gen_resolve.py (five flags: do fn if_branch / fn case_branch / the fall_through arm of fn "
    "expression restore the scope stack; does the AK::Access arm look at the scope stack before the namespace table; does "
    "pub fn resolve repeat the import pass with the errors dropped until a round adds no name)",
    "Resolve/Resolver.v as the model of name_resolution.rs: hand-written, validated on every run against the real "
    "resolver (Debug dump of Vec<Var> and Vec<Statement> through the cfg-guarded hook; first error kind/file/line/columns)",
    "harness `treef` dump of sylt_parser::tree (harness/src/sexp.rs) and ocaml/past_reader.ml, tools/rustdebug.py + "
    "tools/resolved_io.py (conversion of the Debug dumps), ocaml/resolve_driver.ml (printer)",
    "extraction: ExtrOcamlBasic + ExtrOcamlString only",
    "oracle: tools/resolve_gen.py (program generator with explicit binders, its own implementation of the documented "
    "scoping rules used to decide which renamings are consistent and which planted uses are out of scope)",
]
ASSUMPTIONS = [
    "only the first error of the returned Vec<Error> is modelled and compared (kind of message, file, line, columns)",
    "blob/enum statements with several unresolvable field types: the code reports whichever the HashMap yields first; "
    "the model returns all candidates and the tie accepts any of them",
    "file ids of the parsed modules are distinct (tree(): file_id = |visited|; C12 visit_once)",
]
EXPLANATION = ("Model of the resolver's stack discipline tied to the real resolver's output on every run; readable "
               "scope-list specification; refinement refuted (four witnesses) whenever a flag is off, compared on every "
               "tie input for the all-flags-on resolver; alpha-equivalence theorem for renamings consistent with the "
               "implemented discipline, refuted for the documented one while if-branches leak; oracle: byte equality of "
               "the emitted Lua for two consistent renamings (maximally distinct vs maximal shadowing) and rejection of "
               "planted out-of-scope uses, on the real compiler.")

_model = {}
CORPUS = os.path.join(vlib.VERIF, "corpus", "c09")


def build(ctx):
    ok, exe, out = vlib.build_ocaml("resolve", "ExtractResolve.v", "resolve_driver.ml", "resolvemodel",
                                    includes=["rast_reader.ml", "past_reader.ml"])
    _model["exe"] = exe
    return ok, out


# ------------------------------------------------------------------------------------------------
# inputs

def corpus_cases(sub="c09"):
    out = []
    d = os.path.join(vlib.VERIF, "corpus", sub)
    if os.path.isdir(d):
        for f in sorted(os.listdir(d)):
            if f.endswith(".json"):
                j = json.load(open(os.path.join(d, f), encoding="utf-8"))
                out.append(("corpus:" + f, rg.case(j["files"], j.get("main", "/main.sy"), j.get("std", True))))
    return out


def gen_programs(ctx, n, salt):
    """[(class, case line)]: generated programs under several namings, with planted violations, and
    multi-file layouts"""
    out = []
    for i in range(n):
        r = vlib.rng(ctx.seed, "%s-%d" % (salt, i))
        g = rg.Gen(r, size=r.randint(1, 4))
        p = g.program()
        nd = rg.naming_distinct(p)
        # one program in five bundles std (large dumps); the others declare `print` external
        std = i % 5 == 0
        pre = "" if std else rg.EXT_PRINT
        out.append(("gen-distinct", rg.single(pre + rg.Render(nd).program(p), std)))
        ns = rg.naming_shadow(p, r)
        out.append(("gen-shadow", rg.single(pre + rg.Render(ns).program(p), std)))
        for ss, k, b, lv in rg.plant_violations(p, r, 2):
            ss.insert(k, rg.planted_node(p, ss, b, nd))
            out.append(("gen-planted", rg.single(pre + rg.Render(nd).program(p), std)))
            ss.pop(k)
        if hasattr(rg, "layouts"):
            for files, main in rg.layouts(p, r, nd, 2, prelude=pre):
                out.append(("gen-multifile", rg.case(files, main, std)))
    # `x := f(x)` shapes (see oracle_stream): a sample of them takes part in the tie as well
    r = vlib.rng(ctx.seed, salt + "-self")
    for _ in range(min(n, 60)):
        ci, ii = r.randrange(len(rg.SELF_CTX)), r.randrange(len(rg.SELF_INITS))
        out.append(("gen-self-shadow", rg.single(rg.self_shadow_program(
            ci, ii, r.choice(["total", "bumped"]), r.choice(["local", "param", "global"]), r.random() < 0.5), True)))
        out.append(("gen-self-use", rg.single(rg.self_use_program(ci, ii, r.random() < 0.5), True)))
    # function literals inside redundant parentheses (see oracle_stream)
    for ti in range(len(rg.PAREN_FN)):
        for k in (0, 1, 2):
            out.append(("gen-paren-fn", rg.single(rg.EXT_PRINT + rg.paren_fn_program(ti, k), False)))
    for i in range(min(n, 40)):
        r = vlib.rng(ctx.seed, "%s-parenfn-%d" % (salt, i))
        p = rg.Gen(r, size=r.randint(1, 3)).program()
        out.append(("gen-paren-fn", rg.single(rg.EXT_PRINT + rg.Render(rg.naming_distinct(p), fn_parens=1 + i % 2).program(p), False)))
        rs = rg.Render(rg.naming_distinct(p))
        rs.sugar = True
        out.append(("gen-call-sugar", rg.single(rg.EXT_PRINT + rs.program(p), False)))
    # block expressions that initialise module globals (see oracle_stream): all shadow variants and a sample of
    # the out-of-scope uses
    r = vlib.rng(ctx.seed, salt + "-ginit")
    for ci in range(len(rg.GINIT_CTX)):
        for nm in ["fresh"] + rg.GINIT_NAMES:
            out.append(("gen-global-init-block", rg.single(rg.EXT_PRINT + rg.ginit_shadow_program(ci, nm, r.random() < 0.5), False)))
        out.append(("gen-global-init-use", rg.single(rg.EXT_PRINT + rg.ginit_use_program(
            ci, r.choice(["@BEFORE", "@OTHER", "@GLOBAL", "@START"]), r.random() < 0.5), False)))
    # re-export projects in every module order (accepted: chain, aliases, diamond, cycle; rejected: missing name,
    # collision): the import pass of the model against the real one, first error included
    for i in range(min(n, 24) if ctx.tier == "quick" else n // 10):
        r = vlib.rng(ctx.seed, "%s-reexport-%d" % (salt, i))
        for shape, files, _ in rg.reexport_projects(r, i):
            out.append(("gen-reexport-" + shape, rg.case(files, "/main.sy", False)))
    if hasattr(rg, "module_noise"):
        for i in range(n):
            r = vlib.rng(ctx.seed, "%s-noise-%d" % (salt, i))
            files, main = rg.module_noise(r)
            out.append(("gen-import-errors", rg.case(files, main, r.random() < 0.5)))
    return out


def all_cases(ctx):
    cases = corpus_cases("c09") + corpus_cases("c11") + corpus_cases("c12")
    repo = [("repo:" + rel, c) for rel, c in rg.repo_cases(std=True)]
    if ctx.tier == "quick":
        # every third repository program in the quick tier (std bundled: the model resolves the whole library each
        # time, which dominates the run time); all of them in the thorough tier
        repo = [x for i, x in enumerate(repo) if i % 3 == ctx.seed % 3]
    cases += repo
    cases += gen_programs(ctx, 150 if ctx.tier == "quick" else 1000, "c09-tie")
    return cases


# ------------------------------------------------------------------------------------------------
# the tie: real resolver (phases hook) == extracted model on the real parser's tree

def compare_resolver(cases, exe, mode="resolve"):
    lines = [c for _, c in cases]
    trees = vlib.harness("treef", lines)
    ph = vlib.harness("phases", lines)
    idx = [i for i, t in enumerate(trees) if t.startswith("TREE ")]
    mod = vlib.model(exe, [mode], [trees[i].split(" ")[1] for i in idx])
    mism = []
    stats = collections.Counter()
    nontrivial = set()
    samples = []
    for i in range(len(lines)):
        if not trees[i].startswith("TREE "):
            stats["parser-rejects(not compared)"] += 1
    for i, m in zip(idx, mod):
        name = cases[i][0]
        cls = name.split(":")[0]
        d, tail = resolved_io.parse_phases_line(ph[i])
        if ph[i].startswith("PANIC") or ph[i] in ("TIMEOUT",) or ph[i].startswith("CRASH"):
            stats["real:" + ph[i].split(" ")[0]] += 1
            mism.append({"case": name, "real": ph[i][:200], "model": m[:200]})
            continue
        if "vars" in d:
            try:
                want = "OK " + resolved_io.resolved_sexp(d["vars"], d["resolved"])
            except ValueError as e:      # a construct outside Resolved.v
                stats["unsupported:" + str(e)[:30]] += 1
                continue
            stats[cls + ":resolved"] += 1
            if m == want:
                nontrivial.add(hash(m))
                if len(samples) < 3 and cls.startswith("gen"):
                    samples.append({"case": name, "result": m[:160] + "..."})
            else:
                k = 0
                while k < min(len(m), len(want)) and m[k] == want[k]:
                    k += 1
                mism.append({"case": name, "line": lines[i][:2000], "model": m[max(0, k - 120):k + 120],
                             "real": want[max(0, k - 120):k + 120]})
        else:
            fe = rg.first_error(tail)
            alts = [a.split("|") for a in m.split(" ")[1:]] if m.startswith("ERR") else []
            hit = any(fe and fe[0] == "Compile" and a[1] == fe[1] and int(a[2]) == fe[2] and int(a[3]) == fe[3]
                      and int(a[4]) == fe[4] and a[0] == rg.msg_class(fe[5]) for a in alts)
            stats[cls + ":rejected:" + (rg.msg_class(fe[5]) if fe else "?")] += 1
            if hit:
                nontrivial.add(hash(m))
            else:
                mism.append({"case": name, "line": lines[i][:2000], "model": m[:300], "real": tail[:300]})
    return mism, stats, len(idx), len(nontrivial), samples


def tie(ctx):
    cases = all_cases(ctx)
    exe = _model["exe"]
    mism, stats, n, samples = [], collections.Counter(), 0, []
    nontriv = 0
    # in chunks: the dumps of std-bundled programs are large
    for k in range(0, len(cases), 800):
        chunk = cases[k:k + 800]
        m1, st1, n1, nt1, smp = compare_resolver(chunk, exe)
        mism += m1
        stats.update(st1)
        n += n1
        nontriv += nt1
        samples = samples or smp
        # model-internal: the resolver with all scopes restored == the scope-list specification
        lines = [c for _, c in chunk]
        trees = vlib.harness("treef", lines)
        hx = [t.split(" ")[1] for t in trees if t.startswith("TREE ")]
        fixed = vlib.model(exe, ["fixed"], hx)
        spec = vlib.model(exe, ["spec"], hx)
        nsfirst = vlib.model(exe, ["nsfirst"], hx)
        pinned = vlib.model(exe, ["resolve"], hx)
        hyp = vlib.model(exe, ["hyp"], hx)
        for a, b, c, d, h in zip(fixed, spec, pinned, nsfirst, hyp):
            f = dict(x.split("=") for x in h.split(" ")[1:]) if h.startswith("HYP ") else {}
            flags = f.get("flags", "????")
            stats["flags of this run (if/case/else restore, x.f scope-first, imports to fixpoint): " + flags] += 1
            wf, nns = f.get("wf") == "t", f.get("no_ns_shadow") == "t"
            tok = f.get("tree_ok") == "t"
            stats["hypothesis tree_ok holds (C07_resolver_total: module table consistent)"] += tok
            if tok and (c.startswith("PANIC") or c.startswith("OUTOFFUEL")):
                mism.append({"case": "C07_resolver_total fails on a tie input", "pinned": c[:300]})
            if not tok:
                mism.append({"case": "tree_ok is false on a tree produced by the real tree()", "hyp": h})
            usep = f.get("use_sep") == "t"
            stats["side condition of C14_columns_resolve holds (names of `use` statements on distinct lines)"] += usep
            if not usep:
                mism.append({"case": "use_names_separated is false on a tree produced by the real tree()", "hyp": h})
            stats["hypothesis arrows_simple of C14_resolve_arrow holds (callee after -> is a name or access chain)"] += f.get("arrows_simple") == "t"
            stats["hypothesis wf_ast holds"] += wf
            stats["hypothesis no_ns_shadow holds"] += nns
            stats["hypotheses of C09_resolve_refines_modulo_ns hold (wf_ast and no_ns_shadow)"] += wf and nns
            if a != b:
                mism.append({"case": "spec-vs-fixed-resolver", "fixed": a[:300], "spec": b[:300]})
            else:
                stats["spec == resolver with all four flags on"] += 1
            if c != b:
                stats["resolver with this run's flags differs from the documented spec"] += 1
            # the theorems that apply to this run's flags, re-checked on the input
            if flags[:3] == "ttt" and wf:
                want = b if flags[3] == "t" else d
                if c != want:
                    mism.append({"case": "C09_resolve_refines_nsfirst fails on a tie input", "pinned": c[:300],
                                 "spec_g": want[:300]})
                if nns and c != b:
                    mism.append({"case": "C09_resolve_refines_modulo_ns fails on a tie input", "pinned": c[:300],
                                 "spec": b[:300]})
            if nns and d != b:
                mism.append({"case": "C09_nsfirst_is_lexical fails on a tie input", "nsfirst": d[:300], "spec": b[:300]})
    return {"name": "resolver", "ok": not mism, "mismatches": mism[:10], "evaluations": n,
            "distinct_nontrivial": nontriv,
            "rule": "every /repo/tests/**/*.sy that parses (std bundled), corpus/c09|c11|c12, generated programs under "
                    "distinct and shadowing namings, with planted scope violations, multi-file layouts and import-error "
                    "projects; model input = real `treef` dump; compared: OK + full Vec<Var>/Vec<Statement> dump, or the "
                    "first error (message class, file, line, columns); distinct by output (per chunk of 800)",
            "samples": samples, "distribution": dict(stats)}


# ------------------------------------------------------------------------------------------------
# the oracle on the real implementation

KNOWN_CLASSES = {
    "branch-scope-leak": "variables declared in an if-branch / case arm / case else stay visible after it",
    "namespace-shadows-local-in-field-access": "`x.f` consults the file's namespace table before the scope stack",
}


def open_classes():
    return {kf.get("class") for kf in vlib.known_findings("C09") if kf.get("status") == "open" and kf.get("class")}


def oracle_stream(ctx, n, salt):
    """yields dicts describing one oracle evaluation each: kind 'pair' (two namings of one program) or
    'planted' (one out-of-scope use).  Each carries the abstract program for shrinking."""
    items = []
    for i in range(n):
        r = vlib.rng(ctx.seed, "%s-%d" % (salt, i))
        g = rg.Gen(r, size=r.randint(1, 4))
        p = g.program()
        nd = rg.naming_distinct(p)
        ns = rg.naming_shadow(p, r)
        items.append({"kind": "pair", "p": p, "na": nd, "nb": ns, "cls": "shadow",
                      "leak": not rg.leaky_check(p, ns)})
        ns2 = rg.naming_shadow_safe(p, r)
        items.append({"kind": "pair", "p": p, "na": nd, "nb": ns2, "cls": "shadow-leak-safe", "leak": False})
        nc = rg.naming_caps(p, r)
        items.append({"kind": "pair", "p": p, "na": nd, "nb": nc, "cls": "capitalised", "leak": not rg.leaky_check(p, nc)})
        for j, (ss, k, b, lv) in enumerate(rg.plant_violations(p, r, 3)):
            items.append({"kind": "planted", "p": p, "na": nd, "at": (ss, k, b), "cls": "planted", "leak": lv,
                          "fn_parens": (1 + i % 2) if j == 2 else 0})
        if i % 2 == 1:
            # calls written as arrow calls `a -> f(b)`, call statements as prime calls `f' a, b`: the same Lua
            rs = rg.Render(nd)
            rs.sugar = True
            items.append({"kind": "files-pair", "cls": "call-sugar", "leak": False, "p": p,
                          "a": {"/main.sy": rg.Render(nd).program(p)}, "b": {"/main.sy": rs.program(p)}})
        if i % 2 == 0:
            # every function literal inside 1-2 redundant parentheses: the same Lua
            k = 1 + (i // 2) % 2
            items.append({"kind": "files-pair", "cls": "paren-fn", "leak": False, "p": p,
                          "a": {"/main.sy": rg.Render(nd).program(p)},
                          "b": {"/main.sy": rg.Render(nd, fn_parens=k).program(p)}})
    if hasattr(rg, "nsfield_cases"):
        items += rg.nsfield_cases(ctx, n // 4 + 1, salt)
    # `x := f(x)`: the initialiser mentions an OUTER variable of the same name (plain, and with a function
    # literal in argument position), in blocks / branches / loops / closures, outer = local / parameter /
    # global: naming the new variable like the outer one or freshly must give the same Lua; with no outer
    # variable the use inside the own initialiser must be rejected.  The family is small: all of it, always.
    for ci in range(len(rg.SELF_CTX)):
        for ii in range(len(rg.SELF_INITS)):
            for outer in ("local", "param", "global"):
                for mut in (True, False):
                    items.append({"kind": "files-pair", "cls": "self-shadow", "leak": False,
                                  "a": {"/main.sy": rg.self_shadow_program(ci, ii, "bumped", outer, mut)},
                                  "b": {"/main.sy": rg.self_shadow_program(ci, ii, "total", outer, mut)}})
            for mut in (True, False):
                items.append({"kind": "src-reject", "cls": "use-in-own-initialiser", "leak": False,
                              "files": {"/main.sy": rg.self_use_program(ci, ii, mut)}})
    # function literals inside redundant parentheses (local / global, recursive or not, shadowing a global, blob fields
    # using self, arguments, nested): the same Lua as without them
    for ti in range(len(rg.PAREN_FN)):
        for k in (1, 2):
            items.append({"kind": "files-pair", "cls": "paren-fn", "leak": False,
                          "a": {"/main.sy": rg.paren_fn_program(ti, 0)}, "b": {"/main.sy": rg.paren_fn_program(ti, k)}})
    # locals of block expressions (if / elif / else / case arm / case else, nested, with closures, not at the root of
    # the initialiser) that initialise a MODULE GLOBAL: naming the local freshly, like the global it reads, like
    # another global or like the global being defined must give the same Lua; a use of it before its definition, in
    # another branch, in another global or in `start` must be rejected.  All of it, always.
    for ci in range(len(rg.GINIT_CTX)):
        for mut in (True, False):
            for nm in rg.GINIT_NAMES:
                items.append({"kind": "files-pair", "cls": "global-init-block", "leak": False,
                              "a": {"/main.sy": rg.ginit_shadow_program(ci, "fresh", mut)},
                              "b": {"/main.sy": rg.ginit_shadow_program(ci, nm, mut)}})
            for probe in ("@BEFORE", "@OTHER", "@GLOBAL", "@START"):
                items.append({"kind": "src-reject", "cls": "use-outside-global-init-block", "leak": False,
                              "files": {"/main.sy": rg.ginit_use_program(ci, probe, mut)}})
    return items


def render_item(it):
    """-> list of case lines to compile for this oracle item"""
    if it["kind"] == "pair":
        p = it["p"]
        return [rg.single(rg.Render(it["na"]).program(p), True), rg.single(rg.Render(it["nb"]).program(p), True)]
    if it["kind"] == "planted":
        ss, k, b = it["at"]
        ss.insert(k, rg.planted_node(it["p"], ss, b, it["na"]))
        try:
            return [rg.single(rg.Render(it["na"], fn_parens=it.get("fn_parens", 0)).program(it["p"]), True)]
        finally:
            ss.pop(k)
    if it["kind"] == "files-pair":
        return [rg.case(it["a"], "/main.sy", True), rg.case(it["b"], "/main.sy", True)]
    if it["kind"] == "src-reject":
        return [rg.case(it["files"], "/main.sy", True)]
    raise ValueError(it["kind"])


def judge(it, results):
    """None = property holds on this item; else a description"""
    if it["kind"] in ("pair", "files-pair"):
        a, b = results
        if a.startswith("PANIC") or b.startswith("PANIC"):
            return "compiler panicked"
        if a == b:
            return None
        if a.startswith("OK") and b.startswith("OK"):
            return "the two consistent renamings compile to different Lua"
        if a.startswith("OK") != b.startswith("OK"):
            return "one renaming is accepted, the other rejected (%s | %s)" % (a[:60], b[:60])
        # both rejected: must be the same first error position up to names
        ea, eb = rg.first_error(a), rg.first_error(b)
        if ea and eb and (ea[0], ea[2]) == (eb[0], eb[2]):
            return None
        return "both rejected but with different first errors (%s | %s)" % (a[:80], b[:80])
    if it["kind"] in ("planted", "src-reject"):
        (a,) = results
        if a.startswith("OK"):
            return "a use of a variable outside its scope / before its declaration is accepted"
        if a.startswith("PANIC"):
            return "compiler panicked"
        return None
    return None


def classify(it):
    if it.get("leak"):
        return "branch-scope-leak"
    if it.get("nsfield"):
        return "namespace-shadows-local-in-field-access"
    return None


def run_oracle(ctx, items):
    lines = []
    spans = []
    for it in items:
        ls = render_item(it)
        spans.append((len(lines), len(ls)))
        lines += ls
    res = vlib.harness("compile", lines)
    out = []
    for it, (a, n) in zip(items, spans):
        out.append(judge(it, res[a:a + n]))
    return out, lines, spans


def flags_case():
    """which case of the regenerated flags this run is in, and which theorems of Props/C09.v speak about the
    code in that case"""
    import re
    try:
        t = open(os.path.join(vlib.COQ, "Gen", "GenResolve.v"), encoding="utf-8").read()
        m = re.search(r"gen_rflags : rflags := mkFlags (\w+) (\w+) (\w+) (\w+) (\w+)\.", t)
        fl = [x == "true" for x in m.groups()]
    except Exception as e:
        return {"flags": "unknown: %s" % e}
    names = ["if_truncates", "case_truncates", "else_truncates", "access_local_first", "imports_fixpoint"]
    d = {"flags": dict(zip(names, fl))}
    d["imports"] = ("the import pass is repeated until it adds no name (C12_reexport_order_independent applies)" if fl[4]
                    else "the import pass runs once in tree.modules order (C12_reexport_order_dependent applies); the "
                         "specification of C09 takes the global tables as that pass leaves them")
    fl = fl[:4]
    if all(fl):
        d["case"] = ("all four on: C09_resolve_refines applies -- the code is the documented specification on every "
                     "well-formed AST")
    elif all(fl[:3]):
        d["case"] = ("the three restore flags on, `x.f` still namespace-first: C09_resolve_refines_nsfirst (code = "
                     "specification with that quirk, all well-formed ASTs) and C09_resolve_refines_modulo_ns (code = "
                     "documented specification on well-formed ASTs satisfying no_ns_shadow) apply; "
                     "C09_resolve_refines_refuted (witness w_nsfield) shows the remaining difference")
    else:
        d["case"] = ("some scope is not restored: only C09_resolve_refines_refuted and C09_alpha (for the implemented "
                     "discipline) speak about the code")
    return d


def always(ctx):
    n = 250 if ctx.tier == "quick" else 2500
    items = oracle_stream(ctx, n, "c09-oracle")
    verdicts, lines, spans = run_oracle(ctx, items)
    opened = open_classes()
    dist = collections.Counter()
    unexplained = []
    for it, v in zip(items, verdicts):
        key = it["cls"] + (":" + ("holds" if v is None else "VIOLATED"))
        if v is not None:
            c = classify(it)
            key += ":" + (c or "unexplained")
            if c is None or c not in opened:
                unexplained.append((it, v, c))
        dist[key] += 1
    ctx.c09_unexplained = unexplained
    if unexplained:
        it, v, c = unexplained[0]
        ctx.brk("oracle:" + (c or "unexplained"),
                "%d of %d oracle evaluations violate C09 and are not covered by an open known finding; first: %s (class %s)"
                % (len(unexplained), len(items), v, c))
    return {"flags_case": flags_case(),
            "oracle_evaluations": len(items), "oracle_distribution": dict(dist),
            "oracle_rule": "real compiler, std bundled: (a) byte equality of the emitted Lua for the maximally-distinct "
                           "naming vs a maximal-shadowing naming of the same generated program (also a shadowing naming "
                           "constrained to be immune to the recorded scope leak); (b) one planted use of a local "
                           "outside its scope or before its declaration must be rejected; (c) parameter named like an "
                           "imported namespace used in field position; (d) `x := f(x)` with an outer x (also with a function literal in "
                           "argument position, arrow calls) named like the outer variable vs freshly -> identical Lua, and "
                           "the same initialisers with no outer variable -> rejected; (e) the generated programs contain if / case "
                           "EXPRESSIONS whose branches declare locals and closures -- in particular as initialisers of module "
                           "globals, nested, not at the root -- so (a) and (b) cover them (planted uses also between the items "
                           "of the module, as a further global); plus the hand-written family of such initialisers: local named "
                           "freshly vs like the global it reads / another global / the global being defined -> identical Lua, "
                           "use before the definition / in another branch / in another global / in start -> rejected; (f) every function "
                           "literal of a generated program, and of a hand-written family (recursive local / global definitions, "
                           "shadowing a global, blob fields using self, arguments, nested closures), inside 1-2 redundant "
                           "parentheses -> the same Lua as without them; a third of the planted uses are rendered that way; (g) every call "
                           "with arguments of a generated program written as an arrow call `a -> f(b)` and every call statement "
                           "as a prime call `f' a, b` -> the same Lua as with plain calls"}


def describe(it, v):
    ls = render_item(it)
    srcs = []
    for l in ls:
        f = l.split("\t")
        srcs.append({x.split("=", 1)[0]: vlib.unhex(x.split("=", 1)[1]).decode("utf-8") for x in f[2:]})
    return {"what": v, "class": classify(it) or "unexplained", "kind": it["kind"], "programs": srcs,
            "cases": ls, "replay_cmd": "write each of `cases` to a file and run %s compile FILE" % vlib.HARNESS_BIN}


def search(ctx):
    un = getattr(ctx, "c09_unexplained", None)
    if un is None:
        always(ctx)
        un = ctx.c09_unexplained
    if not un:
        # something else broke (a theorem, the tie): look further for any failing input
        items = oracle_stream(ctx, 1500 if ctx.tier == "quick" else 8000, "c09-search")
        verdicts, _, _ = run_oracle(ctx, items)
        opened = open_classes()
        un = [(it, v, classify(it)) for it, v in zip(items, verdicts)
              if v is not None and (classify(it) is None or classify(it) not in opened)]
        if not un:
            return None
    # prefer an unexplained class, then the most telling verdict (accepted with different Lua, accepted vs
    # rejected, ...), then the smallest program
    def cat(v):
        return (v or "").split(" (")[0]
    rank = {"the two consistent renamings compile to different Lua": 0,
            "a use of a variable outside its scope / before its declaration is accepted": 0,
            "one renaming is accepted, the other rejected": 1}
    un.sort(key=lambda x: (x[2] is not None, rank.get(cat(x[1]), 2), len(render_item(x[0])[0])))
    it, v, c = un[0]
    if it["kind"] in ("pair", "planted"):
        p = it["p"]

        def failing(q):
            try:
                if it["kind"] == "pair" and not (rg.lexical_check(q, it["na"]) and rg.lexical_check(q, it["nb"])):
                    return False
                if it["kind"] == "planted":
                    ss, k, b = it["at"]
                    if k > len(ss):
                        return False
                vv, _, _ = run_oracle(ctx, [it])
                # the same kind of violation, not just any (a shrunk program that merely stops type-checking
                # under one naming says little)
                return vv[0] is not None and cat(vv[0]) == cat(v)
            except Exception:
                return False
        if it["kind"] == "planted":
            # keep the statement list that holds the planted use intact
            pass
        else:
            rg.shrink_prog(p, failing, max_tests=300)
    vv, _, _ = run_oracle(ctx, [it])
    d = describe(it, vv[0] or v)
    d["failing_inputs_found"] = len(un)
    return d


def replay_known(ctx, kf):
    w = kf.get("witness") or {}
    if "a" in w and "b" in w:
        res = vlib.harness("compile", [rg.case(w["a"], "/main.sy", w.get("std", True)),
                                       rg.case(w["b"], "/main.sy", w.get("std", True))])
        return judge({"kind": "files-pair"}, res) is not None
    if "planted" in w:
        res = vlib.harness("compile", [rg.case(w["planted"], "/main.sy", w.get("std", True))])
        return res[0].startswith("OK")
    return True


def replay(ctx, rep):
    fi = rep.get("failing_input") or {}
    if not fi:
        print("nothing to replay: no failing input in this file")
        return 0
    vlib.build_harness()
    res = vlib.harness("compile", fi["cases"])
    kind = "files-pair" if len(res) == 2 else "planted"
    v = judge({"kind": kind}, res)
    for r in res:
        print(r[:200])
    print("replay ->", v or "property holds")
    return 1 if v else 0
