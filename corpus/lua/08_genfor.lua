-- expect: 1	10
-- expect: 2	20
-- expect: 3	30
-- expect: 2
-- expect: 1	a
-- expect: 2	b
-- expect: x	1
-- expect: y	2
-- expect: nil
-- expect: 1	5
-- expect: nil	nil
-- expect: 1	1
-- expect: 2	4
-- expect: 3	9
-- expect: 1
-- expect: 2
-- expect: 3
-- expect: nil
-- expect: 2	4	6
-- expect: 1
-- expect: 2
-- expect: hello
-- expect: big
-- expect: world
-- expect: done
-- expect: false	bad argument #1 to 'pairs' (table expected, got nil)
-- expect: 0	0
-- expect: x	1
-- expect: false	invalid key to 'next'
local t = {10, 20, 30}
for i, v in ipairs(t) do print(i, v) end
local t2 = {1, 2, nil, 4}
local c = 0
for _ in ipairs(t2) do c = c + 1 end
print(c)
-- MODEL ASSUMPTION: pairs visits the array part in index order, then other keys in insertion order
local t3 = {"a", "b", x = 1, y = 2}
for k, v in pairs(t3) do print(k, v) end
print(next({}))
print(next({5}))
local k, v = next({5}, 1)
print(k, v)
-- stateless iterator: f, s, control
local function iter(max, i) if i < max then return i + 1, (i + 1) * (i + 1) end end
for i, sq in iter, 3, 0 do print(i, sq) end
-- closure iterator
local function range(n) local i = 0 return function() i = i + 1; if i <= n then return i end end end
for i in range(3) do print(i) end
-- assigning nil to an existing field during traversal is allowed
local t4 = {a = 1, b = 2, c = 3}
for key in pairs(t4) do t4[key] = nil end
print(next(t4))
local t5 = {1, 2, 3}
for key, val in pairs(t5) do t5[key] = val * 2 end
print(t5[1], t5[2], t5[3])
for _, val in ipairs({1, 2, 3, 4}) do if val == 3 then break end print(val) end
for w in string.gmatch("hello  big world", "%S+") do print(w) end
-- the visible loop variable is a copy of the hidden control variable
for idx, val in ipairs({1, 2, 3}) do idx = 10 end
print("done")
print(pcall(pairs, nil))
-- removing while iterating an array, then counting what is left
local arr = {1, 2, 3, 4}
for key in pairs(arr) do arr[key] = nil end
local left = 0
for _ in pairs(arr) do left = left + 1 end
print(left, #arr)
-- explicit next loop
local tt = {x = 1}
local key, val = next(tt)
while key do print(key, val); key, val = next(tt, key) end
print(pcall(next, {}, "nokey"))
