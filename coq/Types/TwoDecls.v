(* C03 with two declarations at once: `f(g(1))` where the result type of g is not the parameter type of f,
   `"a" + f(g(1))`, `B { k: f(1) }` where the result type of f is not the type of field k.
   Two extension-closed invariants (Calls.fn_sig for each function; BlobFields.blob_sig for the blob) are threaded
   through the statement list (FieldAssign.iterM_notok_after2): the second declaration is checked in a state in which
   the first invariant holds, and establishes the conjunction. *)
From Coq Require Import String List NArith ZArith PArith Bool Lia FMapPositive.
From Sylt Require Import Syntax.Resolved Types.TyGraph Types.Tc Types.Ctx Types.TcInv Types.Reject Types.Mismatch
  Types.ShapesDecl Types.CopyInst Types.Calls Types.CallsDecl Types.BlobFields Types.FieldAssign.
Import ListNotations.
Local Open Scope tc_scope.

(* two declarations, then an expression anywhere inside a later top-level definition *)
Theorem rejected_after_two (Inv1 Inv2 : st -> Prop) (d1 d2 : stmt) (e : expr) :
  (forall s s', wf s -> ext s s' -> Inv1 s -> Inv1 s') ->
  (forall s s', wf s -> ext s s' -> Inv2 s -> Inv2 s') ->
  (forall kinds g f s u s', wf s -> outer_statement kinds (gfix g) (afix kinds (gfix g) f) d1 ctx_new s = Ok (u, s') -> Inv1 s') ->
  (forall kinds g f s u s', wf s -> Inv1 s -> outer_statement kinds (gfix g) (afix kinds (gfix g) f) d2 ctx_new s = Ok (u, s') -> Inv2 s') ->
  (forall kinds g f ctx s, wf s /\ Inv2 s -> notok (r_expr (afix kinds (gfix g) f) e ctx s)) ->
  forall pre mid1 mid2 post dname dvar dkind dty (C : ectx) dsp sp0 fuel vars,
    typecheck fuel (mkResolved vars
      (pre ++ d1 :: mid1 ++ d2 :: mid2 ++ SDefinition dname dvar dkind dty (plug_e e (SStatementExpression e sp0) C) dsp :: post)) <> Ok tt.
Proof.
  intros IE1 IE2 Hd1 Hd2 He pre mid1 mid2 post dname dvar dkind dty C dsp sp0 fuel vars.
  apply typecheck_notok_main. intros s W.
  set (kinds := kinds_of vars 1 (PositiveMap.empty varkind)).
  pose proof (gfix_pres fuel) as PG. pose proof (afix_pres kinds (gfix fuel) PG fuel) as PA.
  apply (iterM_notok_after2 _ Inv1 Inv2); try assumption.
  - intros y. now apply pres_outer_statement.
  - intros s0 u s1 W0 H0. exact (Hd1 _ _ _ _ _ _ W0 H0).
  - intros s0 u s1 W0 I0 H0. exact (Hd2 _ _ _ _ _ _ W0 I0 H0).
  - intros s0 J0. cbv beta.
    set (J := fun s => wf s /\ Inv2 s).
    assert (HJ : pres_closed J) by (apply inv_pres_closed; assumption).
    apply (outer_def_notok_j kinds (gfix fuel) PG J HJ e (SStatementExpression e sp0)); [assumption|].
    assert (Re : forall c, rej_e_j kinds (gfix fuel) J e c) by (intros c f s' J'; now apply He).
    assert (Rs : forall c, rej_s_j kinds (gfix fuel) J (SStatementExpression e sp0) c).
    { intros c f s' J'. destruct f as [|f]; [apply notok_fuel|]. cbn [afix astep r_stmt]. unfold stmt_body.
      apply bind_notok_l. now apply He. }
    apply (proj1 (at_all _ _ Re Rs)).
Qed.

Section TwoFns.
  Variable kinds : PositiveMap.t varkind.
  Variable g : nat.
  Notation G := (gfix g).
  Notation afix := (afix kinds G).

  Variable v1 : N. Variable ps1 : list basety. Variable rb1 : basety.
  Variable v2 : N. Variable ps2 : list basety. Variable rb2 : basety.
  Hypothesis ps1_rigid : forall n b, nth_error ps1 n = Some b -> rigid_base b = true.
  Hypothesis rb1_rigid : rigid_base rb1 = true.
  Hypothesis ps2_rigid : forall n b, nth_error ps2 n = Some b -> rigid_base b = true.
  Hypothesis rb2_rigid : rigid_base rb2 = true.

  Definition sig2 (s : st) : Prop := fn_sig v1 ps1 rb1 s /\ fn_sig v2 ps2 rb2 s.

  Lemma sig2_ext s s' : wf s -> ext s s' -> sig2 s -> sig2 s'.
  Proof. intros W E [A B]. split; [eapply fn_sig_ext|eapply fn_sig_ext]; eassumption. Qed.

  (* literals, calls of the first function, calls of the second *)
  Inductive atom2 : expr -> tyh -> Prop :=
  | A2Lit e t : lit_atom e t -> atom2 e t
  | A2Call1 sp1 args sp : atom2 (ECall (ERead v1 sp1) args sp) (base_head rb1)
  | A2Call2 sp1 args sp : atom2 (ECall (ERead v2 sp1) args sp) (base_head rb2).

  Lemma atom2_rigid e t : atom2 e t -> rigid t = true.
  Proof. intros [e0 t0 [_ R]| |]; [exact R|exact rb1_rigid|exact rb2_rigid]. Qed.

  Lemma atom2_spec e t f ctx s r s' :
    atom2 e t -> wf s -> sig2 s -> r_expr (afix f) e ctx s = Ok (r, s') -> head s' (snd r) = Some t.
  Proof.
    intros [e0 t0 L|sp1 args sp|sp1 args sp] W [S1 S2] H.
    - exact (lit_atom_spec kinds g _ _ _ _ _ _ _ L W I H).
    - eapply (call_yields kinds g v1 ps1 rb1); eassumption.
    - eapply (call_yields kinds g v2 ps2 rb2); eassumption.
  Qed.

  Lemma atom2_not_fn e t : atom2 e t -> match e with EFunction _ _ _ _ _ _ => False | _ => True end.
  Proof. intros [e0 t0 L| |]; [exact (lit_atom_not_fn _ _ L)|exact I|exact I]. Qed.

  Inductive bad_call2 : expr -> Prop :=
  (* f(.., a, ..) where a is a literal, a call of f or a call of g, of another type than the parameter: f(g(1)) *)
  | Bad2Arg1 sp1 args sp n a ta b :
      nth_error args n = Some a -> nth_error ps1 n = Some b -> atom2 a ta -> same_shape (base_head b) ta = false ->
      bad_call2 (ECall (ERead v1 sp1) args sp)
  | Bad2Arg2 sp1 args sp n a ta b :
      nth_error args n = Some a -> nth_error ps2 n = Some b -> atom2 a ta -> same_shape (base_head b) ta = false ->
      bad_call2 (ECall (ERead v2 sp1) args sp)
  (* any mismatch kind with literals and calls of the two functions as operands: f(1) + g(2), f(1) == g(2), [f(1), g(2)] *)
  | Bad2Operand e : bad_expr_g atom2 e -> bad_call2 e.

  Theorem bad_call2_rejected e : bad_call2 e ->
    forall f ctx s, wf s /\ sig2 s -> notok (r_expr (afix f) e ctx s).
  Proof.
    intros B f ctx s [W Sg]. destruct B as [sp1 args sp n a ta b Ha Hb At Sh|sp1 args sp n a ta b Ha Hb At Sh|e B].
    - apply (rej_call_arg kinds g v1 ps1 rb1 ps1_rigid rb1_rigid f sp1 args sp ctx s n a ta b W (proj1 Sg) Ha Hb);
        [|exact (atom2_rigid _ _ At)|exact Sh].
      intros f' s1 x s2 W1 E1 Hx. exact (atom2_spec _ _ _ _ _ _ _ At W1 (sig2_ext _ _ W E1 Sg) Hx).
    - apply (rej_call_arg kinds g v2 ps2 rb2 ps2_rigid rb2_rigid f sp1 args sp ctx s n a ta b W (proj2 Sg) Ha Hb);
        [|exact (atom2_rigid _ _ At)|exact Sh].
      intros f' s1 x s2 W1 E1 Hx. exact (atom2_spec _ _ _ _ _ _ _ At W1 (sig2_ext _ _ W E1 Sg) Hx).
    - apply (bad_expr_g_rejected kinds g sig2 sig2_ext atom2 atom2_rigid atom2_spec e B f ctx s W Sg).
  Qed.
End TwoFns.

(* After the two top-level declarations `f :: fn .. -> r do .. end` and `g :: fn .. -> r' do .. end` (all parameters and
   both results annotated with leaf types), in either order of the two variables, anywhere inside a later top-level
   definition: a call of one of them with an argument (a literal, or a call of either) of another type than the
   parameter -- f(g(1)) --, or any mismatch kind of bad_expr with calls of the two as operands, is rejected. *)
Theorem C03_two_functions_rejected
        name1 v1 kind1 dty1 nm1 params1 ps1 rb1 tsp1 body1 pure1 fsp1 dsp1
        name2 v2 kind2 dty2 nm2 params2 ps2 rb2 tsp2 body2 pure2 fsp2 dsp2 e :
  annotated params1 ps1 -> (forall n b, nth_error ps1 n = Some b -> rigid_base b = true) -> rigid_base rb1 = true ->
  annotated params2 ps2 -> (forall n b, nth_error ps2 n = Some b -> rigid_base b = true) -> rigid_base rb2 = true ->
  bad_call2 v1 ps1 rb1 v2 ps2 rb2 e ->
  forall pre mid1 mid2 post dname dvar dkind dty' (C : ectx) dsp' sp0 fuel vars,
    typecheck fuel (mkResolved vars
      (pre ++ SDefinition name1 v1 kind1 dty1 (EFunction nm1 params1 (TResolved rb1 tsp1) body1 pure1 fsp1) dsp1 :: mid1 ++
       SDefinition name2 v2 kind2 dty2 (EFunction nm2 params2 (TResolved rb2 tsp2) body2 pure2 fsp2) dsp2 :: mid2 ++
       SDefinition dname dvar dkind dty' (plug_e e (SStatementExpression e sp0) C) dsp' :: post)) <> Ok tt.
Proof.
  intros An1 Rg1 Rr1 An2 Rg2 Rr2 B.
  apply (rejected_after_two (fn_sig v1 ps1 rb1) (sig2 v1 ps1 rb1 v2 ps2 rb2)).
  - intros s s' W E. now apply fn_sig_ext.
  - intros s s' W E. now apply sig2_ext.
  - intros kinds g f s u s' W H. eapply fn_established; eassumption.
  - intros kinds g f s u s' W I1 H. split.
    + assert (P : pres (outer_statement kinds (gfix g) (afix kinds (gfix g) f)
                          (SDefinition name2 v2 kind2 dty2 (EFunction nm2 params2 (TResolved rb2 tsp2) body2 pure2 fsp2) dsp2) ctx_new))
        by (apply pres_outer_statement; [apply gfix_pres|apply afix_pres, gfix_pres]).
      destruct (P _ _ _ W H) as [_ E]. eapply fn_sig_ext; eassumption.
    + eapply fn_established; eassumption.
  - intros kinds g f ctx s J. now apply (bad_call2_rejected kinds g v1 ps1 rb1 v2 ps2 rb2 Rg1 Rr1 Rg2 Rr2 e B).
Qed.

(* After `B :: blob { .., k: t, .. }` and `f :: fn .. -> r do .. end` (leaf types; r is not t): an instantiation
   `B { .., k: f(..), .. }` anywhere inside a later top-level definition is rejected. *)
Theorem C03_blob_field_call_rejected
        bname vb bsp tvars bfields k b
        name v kind dty nm params ps rb tsp body pure fsp dsp
        pre0 sp1 args csp post0 self isp :
  rigid_base b = true -> In k (map fst bfields) ->
  (forall ksp t, In (k, (ksp, t)) bfields -> exists tsp0, t = TResolved b tsp0) ->
  annotated params ps -> (forall n b0, nth_error ps n = Some b0 -> rigid_base b0 = true) -> rigid_base rb = true ->
  base_head b <> base_head rb ->
  let e := EBlob vb (pre0 ++ (k, ECall (ERead v sp1) args csp) :: post0) self isp in
  forall pre mid1 mid2 post dname dvar dkind dty' (C : ectx) dsp' sp0 fuel vars,
    typecheck fuel (mkResolved vars
      (pre ++ SBlob bname vb bsp tvars bfields false :: mid1 ++
       SDefinition name v kind dty (EFunction nm params (TResolved rb tsp) body pure fsp) dsp :: mid2 ++
       SDefinition dname dvar dkind dty' (plug_e e (SStatementExpression e sp0) C) dsp' :: post)) <> Ok tt.
Proof.
  intros Rb Hin Ht An Rg Rr Ne e.
  apply (rejected_after_two (blob_sig vb k b) (fun s => blob_sig vb k b s /\ fn_sig v ps rb s)).
  - intros s s' W E. now apply blob_sig_ext.
  - intros s s' W E [A B]. split; [exact (blob_sig_ext vb k b Rb _ _ W E A)|exact (fn_sig_ext v ps rb Rg Rr _ _ W E B)].
  - intros kinds g f s u s' W H. exact (blob_field_established kinds g vb k b Rb _ _ _ _ _ _ _ _ Hin Ht W H).
  - intros kinds g f s u s' W I1 H. split.
    + assert (P : pres (outer_statement kinds (gfix g) (afix kinds (gfix g) f)
                          (SDefinition name v kind dty (EFunction nm params (TResolved rb tsp) body pure fsp) dsp) ctx_new))
        by (apply pres_outer_statement; [apply gfix_pres|apply afix_pres, gfix_pres]).
      destruct (P _ _ _ W H) as [_ E]. exact (blob_sig_ext vb k b Rb _ _ W E I1).
    + exact (fn_established kinds g _ _ _ _ _ _ _ _ _ _ _ _ _ _ _ _ _ An Rg Rr W H).
  - intros kinds g f ctx s [W [Sb Sf]].
    apply (rej_blob_field_y kinds g vb k b Rb pre0 (ECall (ERead v sp1) args csp) post0 self isp (base_head rb) f ctx s W Sb);
      [|exact Rr|exact Ne].
    intros f' s1 x s2 W1 E1 Hx. eapply (call_yields kinds g v ps rb Rg Rr); [exact W1| |exact Hx]. exact (fn_sig_ext v ps rb Rg Rr _ _ W E1 Sf).
Qed.
