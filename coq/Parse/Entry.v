(* Glue used by the extracted driver and by examples: source text -> lexer model -> parser model ->
   the line the harness prints.  Definitions only. *)
From Coq Require Import String List NArith Bool.
From Sylt Require Import Lex.Regex Lex.Logos Syntax.Ast Syntax.Tok Syntax.Sexp Parse.PrecTable Parse.Parser.
Import ListNotations.

Inductive line :=
| LOk (consumed total : nat) (sexp : string)
| LErr
| LFuel.

Inductive mode := MExpr | MStmt | MOuter | MType.

Definition finish {A : Type} (total : nat) (pr : A -> string) (r : res (A * ctx)) : line :=
  match r with
  | Ok (x, c) => LOk (consumed c) total (pr x)
  | Err => LErr
  | Fuel => LFuel
  end.

Definition drive_toks (T : ptab) (m : mode) (ts : list tok) : line :=
  let f := default_fuel ts in
  let n := length ts in
  match m with
  | MExpr => finish n sexp_e (parse_expression T f ts)
  | MStmt => finish n sexp_s (parse_statement T f ts)
  | MOuter => finish n sexp_s (parse_outer_statement T f ts)
  | MType => finish n sexp_ty (parse_type_top T f ts)
  end.

Definition drive (lt : Logos.table) (T : ptab) (m : mode) (src : list N) : line :=
  drive_toks T m (map classify (lex lt src)).
