"""Seed-driven generators of Sylt expressions, programs and surface variants.

Everything here is independent of the Coq model: trees are plain Python tuples, text is produced by
printers written from the language description (README / property statements), and the expected parse
tree (the harness S-expression without spans) is computed directly from the tree.

Expression trees
    ("atom", text, sexp)            an operand; `text` is its source, `sexp` its harness S-expression
    ("un", op, e)                   op in UNOPS
    ("bin", op, l, r)               op in BINOPS
    ("paren", e)                    explicit parentheses (a Parenthesis node)

Programs: see `gen_program`, `render_program`, `layout_variants`.
"""
import itertools
import random
import re

# ------------------------------------------------------------------------------------------------
# operators (documented table: statement of C13)

BINOPS = ["<=>", "or", "and", "==", "!=", ">", ">=", "<", "<=", "+", "-", "*", "/"]
UNOPS = ["-", "not"]
DOC_RANK = {"<=>": 1, "or": 2, "and": 3, "==": 4, "!=": 4, ">": 4, ">=": 4, "<": 4, "<=": 4, "+": 5, "-": 5,
            "*": 6, "/": 6}
BIN_SEXP = {"<=>": "assert", "or": "or", "and": "and", "==": "cmp eq", "!=": "cmp ne", ">": "cmp gt",
            ">=": "cmp ge", "<": "cmp lt", "<=": "cmp le", "+": "add", "-": "sub", "*": "mul", "/": "div"}
UN_SEXP = {"-": "neg", "not": "not"}


def atom_ident(n):
    return ("atom", n, "(get (read %s))" % n)


def atom_int(i):
    return ("atom", str(i), "(int %d)" % i)


def atom_call(f, args):
    """f(a1, .., an) with atom/tree arguments printed minimally"""
    return ("call", f, list(args))


ATOM_KINDS = ["ident", "int", "call", "index", "field"]


def basic_atom(kind, k):
    """the five atom kinds of the quick tier; k varies the spelling"""
    n = "abcdxyz"[k % 7]
    if kind == "ident":
        return atom_ident(n)
    if kind == "int":
        return atom_int(k % 10)
    if kind == "call":
        return ("atom", "f(%s)" % n, "(get (call (read f) (get (read %s))))" % n)
    if kind == "index":
        return ("atom", "t[%d]" % (k % 3), "(get (index (read t) (int %d)))" % (k % 3))
    if kind == "field":
        return ("atom", "%s.q" % n, "(get (access (read %s) q))" % n)
    raise ValueError(kind)


def rich_atom(r, depth=0):
    """more atom kinds for the random tier (still something `prefix` parses as one operand)"""
    x = r.random()
    n = r.choice("abcdxyz")
    if x < 0.25:
        return atom_ident(n)
    if x < 0.4:
        return atom_int(r.randint(0, 99))
    if x < 0.5:
        return ("atom", "%s.q.w" % n, "(get (access (access (read %s) q) w))" % n)
    if x < 0.6:
        return ("atom", "t[1][0]", "(get (index (index (read t) (int 1)) (int 0)))")
    if x < 0.65:
        return ("atom", "true", "(bool true)")
    if x < 0.7:
        return ("atom", "nil", "(nil)")
    if x < 0.75:
        return ("atom", "1.5", "(float 1.5)")
    if x < 0.8:
        return ("atom", '"s"', "(str 73)")
    if x < 0.85:
        return ("atom", "g().h", "(get (access (call (read g)) h))")
    if x < 0.9:
        return ("atom", "[1, 2]", "(list (int 1) (int 2))")
    if depth < 2:
        args = [random_tree(r, r.randint(0, 2), rich=True, depth_atoms=depth + 1) for _ in range(r.randint(0, 3))]
        return ("call", "f", args)
    return atom_ident(n)


def random_tree(r, depth, rich=False, depth_atoms=0):
    if depth <= 0 or r.random() < 0.15:
        if rich:
            return rich_atom(r, depth_atoms)
        return basic_atom(r.choice(ATOM_KINDS), r.randint(0, 20))
    x = r.random()
    if x < 0.2:
        return ("un", r.choice(UNOPS), random_tree(r, depth - 1, rich, depth_atoms))
    if x < 0.27:
        return ("paren", random_tree(r, depth - 1, rich, depth_atoms))
    return ("bin", r.choice(BINOPS), random_tree(r, depth - 1, rich, depth_atoms),
            random_tree(r, depth - 1, rich, depth_atoms))


def tree_depth(t):
    k = t[0]
    if k in ("atom",):
        return 0
    if k == "call":
        return 0
    if k == "un":
        return 1 + tree_depth(t[2])
    if k == "paren":
        return tree_depth(t[1])
    return 1 + max(tree_depth(t[2]), tree_depth(t[3]))


def tree_size(t):
    k = t[0]
    if k == "atom":
        return 1
    if k == "call":
        return 1 + sum(tree_size(a) for a in t[2])
    if k == "un":
        return 1 + tree_size(t[2])
    if k == "paren":
        return 1 + tree_size(t[1])
    return 1 + tree_size(t[2]) + tree_size(t[3])


# ---- printing -----------------------------------------------------------------------------------

def need_l(op, l):
    if l[0] == "bin":
        return DOC_RANK[l[1]] < DOC_RANK[op]
    if l[0] == "un":
        return DOC_RANK[op] == 6          # unary next to * / : not ordered by the statement
    return False


def need_r(op, r):
    if r[0] == "bin":
        return DOC_RANK[r[1]] <= DOC_RANK[op]   # everything associates to the left
    if r[0] == "un":
        return DOC_RANK[op] == 6
    return False


def need_u(e):
    return e[0] == "bin"


def _wrap(b, s):
    return "(" + s + ")" if b else s


def print_min(t):
    k = t[0]
    if k == "atom":
        return t[1]
    if k == "call":
        return "%s(%s)" % (t[1], ", ".join(print_min(a) for a in t[2]))
    if k == "paren":
        return "(" + print_min(t[1]) + ")"
    if k == "un":
        sep = " " if t[1] == "not" else ""
        return t[1] + sep + _wrap(need_u(t[2]), print_min(t[2]))
    _, op, l, r = t
    return "%s %s %s" % (_wrap(need_l(op, l), print_min(l)), op, _wrap(need_r(op, r), print_min(r)))


def print_min_breaks(t, after=False, top=True):
    """print_min with a line break before (or, with after=True, after) every binary operator that is outside all
    brackets -- a layout the language may or may not accept as one expression; when it does, the grouping must be
    the documented one"""
    k = t[0]
    if k != "bin" or not top:
        return print_min(t)
    _, op, l, r = t
    ls = print_min(l) if need_l(op, l) else print_min_breaks(l, after, True)
    rs = print_min(r) if need_r(op, r) else print_min_breaks(r, after, True)
    ls, rs = _wrap(need_l(op, l), ls), _wrap(need_r(op, r), rs)
    return ("%s %s\n %s" if after else "%s\n %s %s") % ((ls, op, rs))


def _is_op(t):
    return t[0] in ("bin", "un")


def print_full(t):
    k = t[0]
    if k == "atom":
        return t[1]
    if k == "call":
        return "%s(%s)" % (t[1], ", ".join(print_full(a) for a in t[2]))
    if k == "paren":
        return "(" + print_full(t[1]) + ")"
    if k == "un":
        sep = " " if t[1] == "not" else ""
        return t[1] + sep + _wrap(_is_op(t[2]), print_full(t[2]))
    _, op, l, r = t
    return "%s %s %s" % (_wrap(_is_op(l), print_full(l)), op, _wrap(_is_op(r), print_full(r)))


def expected_sexp(t):
    """harness S-expression of the tree, without spans and without parenthesis nodes"""
    k = t[0]
    if k == "atom":
        return t[2]
    if k == "call":
        return "(get (call (read %s)%s))" % (t[1], "".join(" " + expected_sexp(a) for a in t[2]))
    if k == "paren":
        return expected_sexp(t[1])
    if k == "un":
        return "(%s %s)" % (UN_SEXP[t[1]], expected_sexp(t[2]))
    _, op, l, r = t
    return "(%s %s %s)" % (BIN_SEXP[op], expected_sexp(l), expected_sexp(r))


# ---- S-expression utilities ------------------------------------------------------------------------

def sexp_parse(s):
    """nested lists of atoms"""
    toks = re.findall(r"\(|\)|[^\s()]+", s)
    pos = 0

    def go():
        nonlocal pos
        if toks[pos] == "(":
            pos += 1
            out = []
            while toks[pos] != ")":
                out.append(go())
            pos += 1
            return out
        t = toks[pos]
        pos += 1
        return t
    res = go()
    if pos != len(toks):
        raise ValueError("trailing input in sexp")
    return res


def sexp_strip_paren(x):
    if isinstance(x, list):
        if len(x) == 2 and x[0] == "paren":
            return sexp_strip_paren(x[1])
        return [sexp_strip_paren(y) for y in x]
    return x


def sexp_str(x):
    if isinstance(x, list):
        return "(" + " ".join(sexp_str(y) for y in x) + ")"
    return x


def strip_paren_text(s):
    return sexp_str(sexp_strip_paren(sexp_parse(s)))


_FLOAT = re.compile(r"\(float ([^)]*)\)")


def norm_floats(line):
    """compare floats numerically: both the harness ({:?}) and the model (source text) go through float()"""
    def f(m):
        try:
            return "(float %r)" % float(m.group(1))
        except ValueError:
            return m.group(0)
    return _FLOAT.sub(f, line)


# ---- exhaustive families -----------------------------------------------------------------------------

def shapes(depth):
    """all operator shapes of depth <= depth with holes (None) for atoms"""
    if depth == 0:
        return [None]
    sub = shapes(depth - 1)
    out = [None]
    for u in UNOPS:
        for s in sub:
            out.append(("un", u, s))
    for b in BINOPS:
        for l in sub:
            for r in sub:
                out.append(("bin", b, l, r))
    # remove duplicates of lower depth that re-appear
    seen = set()
    res = []
    for s in out:
        key = repr(s)
        if key not in seen:
            seen.add(key)
            res.append(s)
    return res


def fill(shape, atoms):
    """replace holes left to right with atoms from the iterator"""
    if shape is None:
        return next(atoms)
    if shape[0] == "un":
        return ("un", shape[1], fill(shape[2], atoms))
    return ("bin", shape[1], fill(shape[2], atoms), fill(shape[3], atoms))


def atom_cycle(offset):
    k = offset
    while True:
        yield basic_atom(ATOM_KINDS[k % len(ATOM_KINDS)], k)
        k += 1


def subtrees_for_shrinking(t):
    """smaller candidate trees: children, and the tree with one child replaced by an atom"""
    k = t[0]
    out = []
    if k == "un":
        out.append(t[2])
        out += [("un", t[1], s) for s in subtrees_for_shrinking(t[2])]
    elif k == "paren":
        out.append(t[1])
    elif k == "bin":
        out += [t[2], t[3]]
        out += [("bin", t[1], s, t[3]) for s in subtrees_for_shrinking(t[2])]
        out += [("bin", t[1], t[2], s) for s in subtrees_for_shrinking(t[3])]
        if t[2][0] != "atom":
            out.append(("bin", t[1], atom_ident("a"), t[3]))
        if t[3][0] != "atom":
            out.append(("bin", t[1], t[2], atom_ident("b")))
    elif k == "call":
        out += list(t[2])
        out.append(atom_ident("c"))
    return out


# ================================================================================================
# Programs and their surface variants (C14 and others)
#
# Expressions  ("int", n) ("bool", b) ("var", x) ("bin", op, l, r) ("un", op, e) ("call", f, [args])
#              ("list", [es]) ("tuple", [es]) ("index", x, k) ("blobnew", T, [(field, e)]) ("field", x, f)
#              ("ifx", c, a, b)
# Statements   ("def", x, e, mutable, type|None) ("assign", x, op, e) ("expr", e) ("if", [(c, body)], else|None)
#              ("loop", cond|None, body) ("ret", e|None) ("break",) ("continue",) ("block", body)
#              ("unreachable",) ("assert", l, r)
# Top level    ("fn", name, [(param, type)], ret_type|None, body) ("const", name, e) ("blob", T, [(field, type)])
#
# A Style decides every surface choice.  `Style()` is the canonical form (calls with parentheses, explicit
# `ret`, `loop true do`, no redundant parentheses, no comments, four spaces, LF).

class Style:
    FEATURES = ("prime", "arrow", "implicit_ret", "loop_do", "parens", "comments", "blank", "indent", "tabs",
                "crlf", "brk", "cont", "primein", "tokbrk")

    def __init__(self, seed=None, **on):
        self.r = random.Random(seed)
        self.on = {k: bool(on.get(k, False)) for k in self.FEATURES}
        self.p = float(on.get("p", 0.6))

    def want(self, feature):
        return self.on[feature] and self.r.random() < self.p

    @property
    def unit(self):
        if self.on["tabs"]:
            return "\t"
        if self.on["indent"]:
            return "  "
        return "    "


def _atomlike(e):
    return e[0] in ("int", "bool", "var", "call", "list", "tuple", "index", "field")


def rx(e, st, pos="tail"):
    """render an expression.  pos: 'tail' (whole right-hand side / statement, ended by the line), 'full' (a
    complete expression followed by a comma), 'last' (a complete expression directly followed by a closing
    bracket or by `do`), 'operand' (operand of an operator), 'lastop' (right-most operand of a 'last'
    expression)"""
    if st.want("parens"):
        return "(" + _rx(e, st, "last") + ")"
    return _rx(e, st, pos)


def _items(st, es):
    """render the elements of a bracketed list: the last one is directly followed by the closing bracket"""
    return [rx(a, st, "last" if i == len(es) - 1 else "full") for i, a in enumerate(es)]


def _brk(st, items, open_, close):
    """bracketed, comma separated list with optional line breaks / comments inside the brackets"""
    if not st.on["brk"] or not items:
        return open_ + ", ".join(items) + close
    out = open_
    for i, it in enumerate(items):
        if st.r.random() < st.p:
            out += "\n" + (" " * st.r.randint(0, 6))
        out += it
        if i + 1 < len(items):
            if st.r.random() < 0.3:
                out += "\n" + (" " * st.r.randint(0, 6))
            out += ","
            if st.on["comments"] and st.r.random() < 0.2:
                out += " // in brackets\n"
            else:
                out += " "
    if st.r.random() < st.p:
        out += "\n" + (" " * st.r.randint(0, 6))
    return out + close


def _rx(e, st, pos):
    k = e[0]
    if k == "int":
        return str(e[1])
    if k == "bool":
        return "true" if e[1] else "false"
    if k == "var":
        return e[1]
    if k == "un":
        sep = " " if e[1] == "not" else ""
        inner = e[2]
        s = rx(inner, st, "operand")
        if inner[0] in ("bin", "ifx") and not _wrapped(s):
            s = "(" + s + ")"
        return e[1] + sep + s
    if k == "bin":
        _, op, l, r = e
        lt = ("bin", l[1], None, None) if l[0] == "bin" else (("un",) if l[0] == "un" else ("atom",))
        rt = ("bin", r[1], None, None) if r[0] == "bin" else (("un",) if r[0] == "un" else ("atom",))
        ls = rx(l, st, "operand")
        if (need_l(op, lt) or l[0] == "ifx") and not _wrapped(ls):
            ls = "(" + ls + ")"
        if need_r(op, rt) or r[0] == "ifx":
            rs = rx(r, st, "last")
            if not _wrapped(rs):
                rs = "(" + rs + ")"
        else:
            # the right-most operand of an expression that is followed by a closer may be a prime call
            rs = rx(r, st, "lastop" if pos in ("last", "lastop") else "operand")
        return "%s %s %s" % (ls, op, rs)
    if k == "call":
        _, f, args = e
        if pos == "tail" and (st.want("prime") or (st.on["cont"] and len(args) >= 2)):
            if not args:
                return f + "'"
            return f + "' " + _prime_args(st, [rx(a, st, "full") for a in args])
        if pos in ("last", "lastop") and st.want("primein"):
            # the argument list of this prime call is ended by the closing bracket / `do` that follows
            if not args:
                return f + "'"
            return f + "' " + ", ".join(_items(st, args))
        if pos in ("operand", "tail", "full") and st.on["primein"] and st.r.random() < 0.5:
            # (f' a, b + c): parentheses delimit the prime call's argument list
            return "(" + _rx(e, st, "last") + ")"
        if args and pos in ("tail", "full", "last") and st.want("arrow"):
            first = rx(args[0], st, "operand")
            if not _atomlike(args[0]) and not _wrapped(first):
                first = "(" + first + ")"
            return "%s -> %s%s" % (first, f, _brk(st, _items(st, args[1:]), "(", ")"))
        return f + _brk(st, _items(st, args), "(", ")")
    if k == "list":
        return _brk(st, _items(st, e[1]), "[", "]")
    if k == "tuple":
        items = _items(st, e[1])
        if len(items) == 1:
            return "(" + items[0] + ",)"
        return _brk(st, items, "(", ")")
    if k == "index":
        return e[1] + _brk(st, [str(e[2])], "[", "]")
    if k == "field":
        return "%s.%s" % (e[1], e[2])
    if k == "blobnew":
        n = len(e[2])
        return e[1] + " " + _brk(st, ["%s: %s" % (f, rx(v, st, "last" if i == n - 1 else "full"))
                                      for i, (f, v) in enumerate(e[2])], "{", "}")
    if k == "ifx":
        return "if %s do %s else %s end" % (rx(e[1], st, "full"), rx(e[2], st, "full"), rx(e[3], st, "full"))
    raise ValueError(k)


def rty(ty, st):
    """render a type: a string, ("tuple", [types]), ("list", type) or ("user", Name, [types])"""
    if isinstance(ty, str):
        return ty
    if ty[0] == "tuple":
        items = [rty(x, st) for x in ty[1]]
        if len(items) == 1:
            return "(" + items[0] + ",)"
        return _brk(st, items, "(", ")")
    if ty[0] == "list":
        return _brk(st, [rty(ty[1], st)], "[", "]")
    if ty[0] == "user":
        return ty[1] + (_brk(st, [rty(x, st) for x in ty[2]], "(", ")") if ty[2] else "")
    raise ValueError(ty)


def _gap(st):
    """what may stand between the continuation lines of an unbracketed prime call"""
    out = "\n"
    for _ in range(st.r.randint(0, 2)):
        out += st.r.choice(["", "   ", "    // continuation", "// c"]) + "\n"
    return out + " " * st.r.randint(1, 8)


def _prime_args(st, items):
    """a, b, c -- possibly continued over lines, with the comma before or after the break"""
    out = items[0]
    for it in items[1:]:
        if st.want("cont"):
            if st.r.random() < 0.5:
                out += _gap(st) + ", " + it          # break, blank/comment lines, then the comma
            elif st.r.random() < 0.5:
                out += "," + _gap(st) + it           # comma, then break and blank/comment lines
            else:
                out += _gap(st) + "," + _gap(st) + it
        else:
            out += ", " + it
    return out


def _wrapped(s):
    """is s one parenthesised group?"""
    if not s.startswith("("):
        return False
    d = 0
    for i, c in enumerate(s):
        if c == "(":
            d += 1
        elif c == ")":
            d -= 1
            if d == 0:
                return i == len(s) - 1
    return False


_TOK = re.compile(r"//[^\n]*|<=>|<!>|->|::|:=|==|!=|<=|>=|\+=|-=|\*=|/=|[A-Za-z_][A-Za-z0-9_]*|\d+\.\d+|\d+|\S")


def break_tokens(text, st):
    """insert a line break (and sometimes a comment-only line) before/after tokens that stand inside ( ) [ ] { }
    or inside the condition of an `if` / `elif` header -- the places where the parser skips newlines.  Lines that
    contain an if-expression (whose `do ... end` bodies are statements) are left alone."""
    if "\n" in text or "//" in text:
        return text
    body = text.strip()
    header = re.match(r"(if|elif)\b", body) is not None and body.endswith(" do")
    if re.search(r"\bif\b", body[2:] if header else body):
        return text
    toks = [(m.group(0), m.start(), m.end()) for m in _TOK.finditer(text)]
    if len(toks) < 2:
        return text
    out = text[:toks[0][1]]
    depth = 0
    for i, (tok, a, b) in enumerate(toks):
        out += tok
        if tok in "([{" and len(tok) == 1:
            depth += 1
        nxt = toks[i + 1] if i + 1 < len(toks) else None
        if nxt is None:
            out += text[b:]
            break
        gap = text[b:nxt[1]]
        inside = depth > 0
        if nxt[0] in ")]}" and len(nxt[0]) == 1:
            pass
        if header:
            # between `if` and the final `do`
            inside = inside or (i >= 0 and i + 1 < len(toks) - 1 and i >= 0 and not (i == 0 and False))
            if i == 0:
                inside = depth > 0 or True
            if i + 1 == len(toks) - 1:
                inside = depth > 0 or True
        if inside and st.r.random() < st.p:
            brk = "\n"
            if st.r.random() < 0.25:
                brk += " " * st.r.randint(0, 8) + "// " + st.r.choice(["then", "c", "-> x", ")"]) + "\n"
            out += brk + " " * st.r.randint(0, 10)
        else:
            out += gap
        if nxt[0] in ")]}" and len(nxt[0]) == 1:
            depth = max(0, depth - 1)
    return out


class _Out:
    def __init__(self, st):
        self.st = st
        self.lines = []

    def line(self, depth, text):
        st = self.st
        if st.want("blank"):
            self.lines.append("")
        if st.want("comments") and st.r.random() < 0.5:
            self.lines.append(st.unit * depth + "// " + st.r.choice(["note", "x := 1", "end", "do", "f' 1, 2", ""]))
        if st.on["tokbrk"]:
            text = break_tokens(text, st)
        if st.want("comments") and "\n" not in text:
            text = text + " // " + st.r.choice(["c", "ret 1", ")", ""])
        first = True
        for part in text.split("\n"):
            self.lines.append((st.unit * depth if first else "") + part)
            first = False

    def text(self):
        eol = "\r\n" if self.st.on["crlf"] else "\n"
        return eol.join(self.lines) + eol


def render_block(body, st, out, depth, fn_tail=False):
    for i, s in enumerate(body):
        render_stmt(s, st, out, depth, fn_tail and i == len(body) - 1)


def render_stmt(s, st, out, depth, is_fn_tail=False):
    k = s[0]
    if k == "def":
        _, x, e, mutable, ty = s
        if ty is None:
            out.line(depth, "%s %s %s" % (x, ":=" if mutable else "::", rx(e, st)))
        else:
            out.line(depth, "%s: %s %s %s" % (x, rty(ty, st), "=" if mutable else ":", rx(e, st)))
    elif k == "assign":
        out.line(depth, "%s %s %s" % (s[1], s[2], rx(s[3], st)))
    elif k == "expr":
        out.line(depth, rx(s[1], st, "tail"))
    elif k == "assert":
        out.line(depth, "%s <=> %s" % (rx(s[1], st, "operand"), rx(s[2], st, "operand")))
    elif k == "if":
        first = True
        for c, body in s[1]:
            out.line(depth, "%s %s do" % ("if" if first else "elif", rx(c, st, "last")))
            first = False
            render_block(body, st, out, depth + 1)
        if s[2] is not None:
            out.line(depth, "else")
            render_block(s[2], st, out, depth + 1)
        out.line(depth, "end")
    elif k == "loop":
        if s[1] is None:
            out.line(depth, "loop do" if st.want("loop_do") else "loop true do")
        else:
            out.line(depth, "loop %s do" % rx(s[1], st, "full"))
        render_block(s[2], st, out, depth + 1)
        out.line(depth, "end")
    elif k == "ret":
        if s[1] is None:
            out.line(depth, "ret")
        elif is_fn_tail and st.want("implicit_ret"):
            out.line(depth, rx(s[1], st, "tail"))
        else:
            out.line(depth, "ret " + rx(s[1], st, "tail"))
    elif k == "break":
        out.line(depth, "break")
    elif k == "continue":
        out.line(depth, "continue")
    elif k == "unreachable":
        out.line(depth, "<!>")
    elif k == "block":
        out.line(depth, "do")
        render_block(s[1], st, out, depth + 1)
        out.line(depth, "end")
    else:
        raise ValueError(k)


def render_program(prog, st=None):
    st = st or Style()
    out = _Out(st)
    for d in prog:
        if d[0] == "fn":
            _, name, params, ret, body = d
            ps = ", ".join("%s: %s" % (p, t) if t else p for p, t in params)
            head = "%s :: fn %s%s%sdo" % (name, ps, " " if ps else "", ("-> %s " % ret) if ret else "")
            out.line(0, head)
            render_block(body, st, out, 1, fn_tail=True)
            out.line(0, "end")
        elif d[0] == "const":
            out.line(0, "%s :: %s" % (d[1], rx(d[2], st)))
        elif d[0] == "enum":
            vs = _brk(st, ["*" + v for v in d[2]], "(", ")") if d[2] else ""
            lines = ["%s :: enum%s" % (d[1], vs)]
            for vn, payload in d[3]:
                lines.append("    " + vn + ((" " + rty(("tuple", payload), st)) if payload else ""))
            lines.append("end")
            out.line(0, "\n".join(lines))
        elif d[0] == "gblob":
            vs = _brk(st, ["*" + v for v in d[2]], "(", ")")
            out.line(0, "%s :: blob%s { %s }" % (d[1], vs, ", ".join("%s: %s" % (f, rty(ty, st)) for f, ty in d[3])))
        elif d[0] == "blob":
            fields = ["%s: %s" % (f, t) for f, t in d[2]]
            if st.on["brk"]:
                out.line(0, "%s :: blob {\n%s\n}" % (d[1], "".join("    %s,\n" % f for f in fields).rstrip("\n")))
            else:
                out.line(0, "%s :: blob { %s }" % (d[1], ", ".join(fields)))
        else:
            raise ValueError(d[0])
        if st.on["blank"] or True:
            out.lines.append("")
    return out.text()


# ---- generation of well-typed programs ---------------------------------------------------------------

class _Env:
    def __init__(self):
        self.ints = []      # mutable int variables in scope
        self.cints = []     # constant int variables
        self.bools = []
        self.lists = []
        self.tuples = []
        self.blobs = []     # (var, [fields])
        self.btuples = []   # (var, [fields]): tuples whose first component is a blob value

    def copy(self):
        e = _Env()
        for k, v in self.__dict__.items():
            setattr(e, k, list(v))
        return e


def gen_int(r, env, fns, depth):
    ints = env.ints + env.cints
    x = r.random()
    if depth <= 0 or x < 0.25:
        if ints and r.random() < 0.6:
            return ("var", r.choice(ints))
        return ("int", r.randint(0, 9))
    if x < 0.55:
        return ("bin", r.choice(["+", "-", "*"]), gen_int(r, env, fns, depth - 1), gen_int(r, env, fns, depth - 1))
    if x < 0.62:
        return ("un", "-", gen_int(r, env, fns, depth - 1))
    if x < 0.85 and fns:
        f, n = r.choice(fns)
        return ("call", f, [gen_int(r, env, fns, depth - 1) for _ in range(n)])
    if x < 0.9 and env.tuples:
        return ("index", r.choice(env.tuples), r.randint(0, 1))
    if x < 0.95 and env.blobs:
        v, fs = r.choice(env.blobs)
        return ("field", v, r.choice(fs))
    if x < 0.98:
        return ("ifx", gen_bool(r, env, fns, depth - 1), gen_int(r, env, fns, depth - 1), gen_int(r, env, fns, depth - 1))
    return ("int", r.randint(10, 99))


def gen_bool(r, env, fns, depth):
    x = r.random()
    if depth <= 0 or x < 0.15:
        if env.bools and r.random() < 0.5:
            return ("var", r.choice(env.bools))
        return ("bool", r.random() < 0.5)
    if x < 0.65:
        return ("bin", r.choice(["==", "!=", "<", "<=", ">", ">="]), gen_int(r, env, fns, depth - 1),
                gen_int(r, env, fns, depth - 1))
    if x < 0.85:
        return ("bin", r.choice(["and", "or"]), gen_bool(r, env, fns, depth - 1), gen_bool(r, env, fns, depth - 1))
    return ("un", "not", gen_bool(r, env, fns, depth - 1))


def gen_body(r, env, fns, blobs, n, depth, in_loop, names):
    body = []
    for _ in range(n):
        x = r.random()
        if x < 0.22:
            v = names()
            mut = r.random() < 0.7
            body.append(("def", v, gen_int(r, env, fns, 2), mut, r.choice([None, None, "int"])))
            (env.ints if mut else env.cints).append(v)
        elif x < 0.3:
            v = names()
            body.append(("def", v, gen_bool(r, env, fns, 2), True, None))
            env.bools.append(v)
        elif x < 0.38 and blobs and not env.blobs:
            bname, fields = r.choice(blobs)
            v, tv = names(), names()
            body.append(("def", v, ("blobnew", bname, [(f, gen_int(r, env, fns, 1)) for f in fields]), True, None))
            env.blobs.append((v, fields))
            body.append(("def", tv, ("tuple", [("var", v), gen_int(r, env, fns, 1)]), True, None))
            env.btuples.append((tv, fields))
        elif x < 0.38 and env.blobs:
            # an assignment whose TARGET contains brackets (a call / index chain), so that the layout features can put
            # line breaks and comments inside them before the operator
            v, fs = r.choice(env.blobs)
            w, _ = r.choice(env.blobs)
            k = r.random()
            if k < 0.45:
                target = "pickP(%s, %s).%s" % (v, w, r.choice(fs))
            elif k < 0.7 and env.btuples:
                tv, tfs = r.choice(env.btuples)
                target = "%s[0].%s" % (tv, r.choice(tfs))
            elif k < 0.85 and env.btuples:
                tv, tfs = r.choice(env.btuples)
                target = "pickP(%s[0], pickP(%s, %s)).%s" % (tv, v, w, r.choice(tfs))
            else:
                target = "%s.%s" % (v, r.choice(fs))
            body.append(("assign", target, r.choice(["=", "+=", "-=", "*="]), gen_int(r, env, fns, 2)))
        elif x < 0.44 and env.ints:
            body.append(("assign", r.choice(env.ints), r.choice(["=", "+=", "-=", "*="]), gen_int(r, env, fns, 2)))
        elif x < 0.52 and fns:
            f, k = r.choice(fns)
            body.append(("expr", ("call", f, [gen_int(r, env, fns, 1) for _ in range(k)])))
        elif x < 0.6:
            body.append(("assert", gen_int(r, env, fns, 1), gen_int(r, env, fns, 1)))
        elif x < 0.72 and depth > 0:
            def branch(k):
                # an `if` is an expression: every branch must end in a statement without a value
                b = gen_body(r, env.copy(), fns, blobs, k, depth - 1, in_loop, names)
                if not b or b[-1][0] not in ("def", "assign", "break", "continue", "unreachable"):
                    b.append(("def", names(), ("int", 0), True, None))
                return b
            branches = [(gen_bool(r, env, fns, 2), branch(r.randint(1, 3))) for _ in range(r.randint(1, 2))]
            els = branch(r.randint(1, 2)) if r.random() < 0.5 else None
            body.append(("if", branches, els))
        elif x < 0.8 and depth > 0:
            inner = gen_body(r, env.copy(), fns, blobs, r.randint(1, 3), depth - 1, True, names)
            inner.append(("break",))
            cond = None if r.random() < 0.6 else gen_bool(r, env, fns, 1)
            body.append(("loop", cond, inner))
        elif x < 0.83 and in_loop:
            body.append(("if", [(gen_bool(r, env, fns, 1), [("continue",) if r.random() < 0.5 else ("break",)])], None))
        elif x < 0.87:
            v = names()
            body.append(("def", v, ("tuple", [gen_int(r, env, fns, 1), gen_int(r, env, fns, 1)]), True,
                         r.choice([None, ("tuple", ["int", "int"])])))
            env.tuples.append(v)
        elif x < 0.9:
            v = names()
            body.append(("def", v, ("list", [gen_int(r, env, fns, 1) for _ in range(r.randint(0, 3))]), True,
                         r.choice([None, ("list", "int")])))
            env.lists.append(v)
        elif x < 0.94 and blobs:
            bname, fields = r.choice(blobs)
            v = names()
            body.append(("def", v, ("blobnew", bname, [(f, gen_int(r, env, fns, 1)) for f in fields]), True, None))
            env.blobs.append((v, fields))
            if r.random() < 0.5:
                tv = names()
                body.append(("def", tv, ("tuple", [("var", v), gen_int(r, env, fns, 1)]), True, None))
                env.btuples.append((tv, fields))
        elif x < 0.96 and depth > 0:
            body.append(("block", gen_body(r, env.copy(), fns, blobs, r.randint(1, 2), depth - 1, in_loop, names)))
        elif x < 0.98:
            body.append(("if", [(("bin", "==", ("int", 1), ("int", 2)), [("unreachable",)])], None))
        else:
            body.append(("expr", gen_int(r, env, fns, 2)))
    return body


def gen_program(r, size=4):
    """a well-typed program (list of top-level items) that the compiler accepts with --no-std"""
    counter = [0]

    def names():
        counter[0] += 1
        return "v%d" % counter[0]
    prog = []
    blobs = []
    if r.random() < 0.5:
        fields = ["x", "y"][:r.randint(1, 2)]
        prog.append(("blob", "P", [(f, "int") for f in fields]))
        blobs.append(("P", fields))
        # targets of assignments with brackets on the left of the operator: pickP(v, w).x = .., t[0].x += ..
        prog.append(("fn", "pickP", [("a", "P"), ("b", "P")], "P", [("ret", ("var", "a"))]))
    fns = []
    if r.random() < 0.4:
        prog.append(("enum", "E", r.choice([[], ["T"]]),
                     [("A", ["int", "int"]), ("B", []), ("C", [("list", "int"), ("tuple", ["int", "int"])])]))
    if r.random() < 0.3:
        prog.append(("gblob", "Q", ["T", "U"], [("v", "*T"), ("w", ("tuple", ["*U", "int"]))]))
    if r.random() < 0.04:
        # a duplicate field / variant name, possibly separated by other members: always rejected
        if r.random() < 0.5:
            prog.append(("blob", "D", r.choice([[("a", "int"), ("a", "int")], [("a", "int"), ("b", "int"), ("a", "int")]])))
        else:
            prog.append(("enum", "F", [], r.choice([[("A", ["int"]), ("A", [])], [("A", ["int"]), ("B", []), ("A", [])]])))
    if r.random() < 0.5:
        prog.append(("const", "k0", ("int", r.randint(1, 9))))
    for i in range(r.randint(1, size)):
        n = r.randint(0, 3)
        params = [("p%d" % j, "int") for j in range(n)]
        env = _Env()
        env.cints = [p for p, _ in params]
        body = gen_body(r, env, fns, blobs, r.randint(0, 4), 2, False, names)
        body.append(("ret", gen_int(r, env, fns, 2)))
        prog.append(("fn", "f%d" % i, params, "int", body))
        fns.append(("f%d" % i, n))
    env = _Env()
    body = gen_body(r, env, fns, blobs, r.randint(2, 7), 2, False, names)
    prog.append(("fn", "start", [], None, body))
    return prog


STYLE_FEATURES = ["prime", "arrow", "implicit_ret", "loop_do", "parens", "comments", "blank", "indent", "tabs", "crlf",
                  "brk", "cont", "primein", "tokbrk"]

# combinations that are always produced besides the single features: a prime / arrow call whose last argument is
# followed, inside brackets or an `if` condition, by a line break and then an operator, `->`, `.`, `[` or `(`
FIXED_COMBOS = [("primein", "tokbrk"), ("primein", "arrow", "tokbrk", "comments"), ("prime", "arrow", "parens", "tokbrk"),
                ("arrow", "tokbrk")]


def surface_variants(prog, seed, n_mixed=2):
    """[(name, text)]: canonical form, one variant per surface feature, and mixed variants"""
    out = [("canonical", render_program(prog, Style()))]
    for i, f in enumerate(STYLE_FEATURES):
        out.append((f, render_program(prog, Style(seed * 131 + i, **{f: True}))))
    for i, combo in enumerate(FIXED_COMBOS):
        out.append(("combo:" + "+".join(combo),
                    render_program(prog, Style(seed * 389 + i, p=0.7, **{f: True for f in combo}))))
    r = random.Random(seed)
    for j in range(n_mixed):
        on = {f: r.random() < 0.5 for f in STYLE_FEATURES}
        out.append(("mixed:" + "+".join(k for k, v in on.items() if v),
                    render_program(prog, Style(seed * 977 + j, p=r.choice([0.3, 0.6, 0.9]), **on))))
    return out


# ---- layout variants of arbitrary source text (used on /repo/tests/**/*.sy) ----------------------------

def _line_states(src):
    """for each line: (starts inside a string literal?, bracket depth at line start)"""
    states = []
    in_str = False
    depth = 0
    for line in src.split("\n"):
        states.append((in_str, depth))
        i = 0
        while i < len(line):
            c = line[i]
            if in_str:
                if c == '"':
                    in_str = False
            elif c == '"':
                in_str = True
            elif c == "/" and line[i:i + 2] == "//":
                break
            elif c in "([{":
                depth += 1
            elif c in ")]}":
                depth = max(0, depth - 1)
            i += 1
    return states


def has_multiline_string(src):
    return any(s for s, _ in _line_states(src))


def layout_variants(src, seed):
    """[(name, text)] text-level variants that touch only layout: re-indentation, tabs, CRLF, trailing
    comments, blank lines, comment-only lines.  Lines inside string literals are left alone."""
    r = random.Random(seed)
    lines = src.split("\n")
    states = _line_states(src)
    out = []

    def reindent(unit):
        res = []
        for l, (ins, _) in zip(lines, states):
            if ins:
                res.append(l)
                continue
            body = l.lstrip(" \t")
            ind = len(l) - len(body)
            res.append(unit * (ind // 2) + body if body else "")
        return "\n".join(res)
    out.append(("indent", reindent("   ")))
    out.append(("tabs", reindent("\t")))
    if not has_multiline_string(src):
        out.append(("crlf", src.replace("\n", "\r\n")))
    # trailing comments on lines that do not end inside a string and are not empty
    res = []
    for i, l in enumerate(lines):
        ends_in_str = states[i + 1][0] if i + 1 < len(states) else False
        if l.strip() and not ends_in_str and not states[i][0] and r.random() < 0.5:
            res.append(l + "  // " + r.choice(["c", "end", "1, 2", ""]))
        else:
            res.append(l)
    out.append(("trailing_comments", "\n".join(res)))
    for name, ins in (("blank_lines", ""), ("comment_lines", "// inserted")):
        res = []
        for i, l in enumerate(lines):
            if not states[i][0] and r.random() < 0.4:
                res.append(ins)
            res.append(l)
        out.append((name, "\n".join(res)))
    return out


def prime_continuation_lines(src):
    """indices of lines that continue an unbracketed prime call (a line starting with ','), DESIGN §7 row 19"""
    idx = []
    for i, (l, (ins, depth)) in enumerate(zip(src.split("\n"), _line_states(src))):
        if not ins and l.lstrip(" \t\r").startswith(","):
            idx.append(i)
    return idx
