(* lower_cf_ok: the lowering of a program whose `break`/`continue` statements all stand in a loop body of
   their own function produces IR that satisfies the control-flow discipline of Back/CFlow.v. *)
From Coq Require Import String List NArith ZArith Bool Lia.
From Sylt Require Import Syntax.Resolved Back.IR Back.Scope Back.RScope Back.ScopeProofs.
From Sylt Require Import Back.CFlow.
Import ListNotations.
Local Open Scope N_scope.

(* ---------------------------------------------------------------- cf_run *)
Lemma cf_run_app a : forall s b,
  cf_run s (a ++ b) = match cf_run s a with Some s' => cf_run s' b | None => None end.
Proof.
  induction a as [|op a IH]; intros s b; cbn; [reflexivity|].
  destruct (cf_step s op); [apply IH|reflexivity].
Qed.

(* a fragment that leaves the open constructs as they were *)
Definition cfr (st : cstack) (code : list ir) : Prop := cf_run (st, false) code = Some (st, false).

Lemma cfr_nil st : cfr st [].
Proof. reflexivity. Qed.
Lemma cfr_app st a b : cfr st a -> cfr st b -> cfr st (a ++ b).
Proof. unfold cfr. intros Ha Hb. rewrite cf_run_app, Ha. exact Hb. Qed.

(* instructions without effect on the control structure *)
Definition plain (op : ir) : bool :=
  match op with
  | ILoop | ILabel _ | IGoto _ | IBreak | IFunction _ _ | IIf _ | IElse | IEnd => false
  | _ => true
  end.
Lemma cf_step_plain st p op : plain op = true -> cf_step (st, p) op = Some (st, false).
Proof. destruct op; cbn; intros H; try discriminate; reflexivity. Qed.
Lemma cfr_cons_plain st op code : plain op = true -> cfr st code -> cfr st (op :: code).
Proof. unfold cfr. intros Hp H. cbn [cf_run]. rewrite (cf_step_plain _ _ _ Hp). exact H. Qed.

Lemma cfr_if st a body F :
  cf_run (CIf :: st, false) body = Some (F :: st, false) -> cfr st (IIf a :: body ++ [IEnd]).
Proof. unfold cfr. intros H. cbn [cf_run cf_step]. rewrite cf_run_app, H. reflexivity. Qed.
Lemma cfr_function st fv ps body : cfr (CFun :: st) body -> cfr st (IFunction fv ps :: body ++ [IEnd]).
Proof. unfold cfr. intros H. cbn [cf_run cf_step]. rewrite cf_run_app, H. reflexivity. Qed.

Lemma has_label_iff l ls : has_label l ls = true <-> In l ls.
Proof.
  unfold has_label. rewrite existsb_exists. split.
  - intros (x & Hin & E). apply N.eqb_eq in E. subst. exact Hin.
  - intros H. exists l. split; [exact H|apply N.eqb_refl].
Qed.
Lemma has_label_false l ls : ~ In l ls -> has_label l ls = false.
Proof. intros H. destruct (has_label l ls) eqn:E; [|reflexivity]. apply has_label_iff in E. contradiction. Qed.

(* ---------------------------------------------------------------- the invariant *)
(* b: the source position is inside a loop body of the current function, whose label is ctx;
   [c, c') is the range of counter values the fragment consumes: no visible label lies in it *)
Definition ok_at (b : bool) (ctx c c' : N) (st : cstack) : Prop :=
  (b = true -> in_loop st = true /\ In ctx (visible_labels st)) /\
  (forall l, In l (visible_labels st) -> l < c \/ c' <= l).

Lemma ok_at_mono b ctx c c' k k' st : c <= k -> k' <= c' -> ok_at b ctx c c' st -> ok_at b ctx k k' st.
Proof. intros H1 H2 [Ha Hb]. split; [exact Ha|]. intros l Hl. destruct (Hb l Hl); [left|right]; lia. Qed.
Lemma ok_at_if b ctx c c' st : ok_at b ctx c c' st -> ok_at b ctx c c' (CIf :: st).
Proof. intros H. exact H. Qed.
Lemma ok_at_else b ctx c c' st : ok_at b ctx c c' st -> ok_at b ctx c c' (CElse :: st).
Proof. intros H. exact H. Qed.
Lemma ok_at_fun ctx c c' st : ok_at false ctx c c' (CFun :: st).
Proof. split; [discriminate|intros l []]. Qed.
(* the condition of a loop: lowered before the label is drawn, placed inside the loop *)
Lemma ok_at_loop_cond b ctx c c' l st : c' <= l -> ok_at b ctx c c' st -> ok_at b ctx c c' (CLoop (Some l) :: st).
Proof.
  intros Hl [Ha Hb]. split.
  - intros E. destruct (Ha E) as [_ Hin]. split; [reflexivity|right; exact Hin].
  - intros x [<-|Hx]; [right; exact Hl|apply Hb; exact Hx].
Qed.
Lemma ok_at_loop_body b ctx c c' l k k' st : c <= l -> l < k -> k' <= c' -> ok_at b ctx c c' st -> ok_at true l k k' (CLoop (Some l) :: st).
Proof.
  intros H1 H2 H3 [Ha Hb]. split.
  - intros _. split; [reflexivity|left; reflexivity].
  - intros x [<-|Hx]; [left; exact H2|]. destruct (Hb x Hx); [left|right]; lia.
Qed.
Lemma ok_at_fresh b ctx c c' l st : ok_at b ctx c c' st -> c <= l -> l < c' -> has_label l (visible_labels st) = false.
Proof. intros [_ Hb] H1 H2. apply has_label_false. intros Hin. destruct (Hb l Hin); lia. Qed.

(* ---------------------------------------------------------------- the induction predicates *)
Definition Good (b : bool) (ctx c c' : N) (code : list ir) : Prop :=
  c <= c' /\ forall st, ok_at b ctx c c' st -> cfr st code.

Definition Pexp (f : nat) : Prop := forall e ctx c r c' b,
  expression f e ctx c = Ok (r, c') -> lo_expr b e = true -> Good b ctx c c' (fst r).
Definition Pstm (f : nat) : Prop := forall s ctx c code c' b,
  statement f s ctx c = Ok (code, c') -> lo_stmt b s = true -> Good b ctx c c' code.
Definition Pdef (f : nat) : Prop := forall var value ctx c code c' b,
  definition f var value ctx c = Ok (code, c') -> lo_expr b value = true -> Good b ctx c c' code.

Lemma good_nil b ctx c : Good b ctx c c [].
Proof. split; [lia|]. intros st _. apply cfr_nil. Qed.
Lemma good_app b ctx c k c' a z : Good b ctx c k a -> Good b ctx k c' z -> Good b ctx c c' (a ++ z).
Proof.
  intros [L1 G1] [L2 G2]. split; [lia|]. intros st Hok.
  apply cfr_app; [apply G1|apply G2]; (eapply ok_at_mono; [| |exact Hok]; lia).
Qed.
Lemma good_plain b ctx c op : plain op = true -> Good b ctx c c [op].
Proof. intros Hp. split; [lia|]. intros st _. apply cfr_cons_plain; [exact Hp|apply cfr_nil]. Qed.
Lemma good_widen b ctx c k k' c' code : c <= k -> k' <= c' -> Good b ctx k k' code -> Good b ctx c c' code.
Proof. intros H1 H2 [L G]. split; [lia|]. intros st Hok. apply G. eapply ok_at_mono; [| |exact Hok]; lia. Qed.

(* mapM of a lowering whose pieces are concatenated *)
Lemma mapM_good {A B} (g : A -> M B) (code_of : B -> list ir) (P : A -> bool) b ctx :
  (forall x c y c', g x c = Ok (y, c') -> P x = true -> Good b ctx c c' (code_of y)) ->
  forall xs c ys c', mapM g xs c = Ok (ys, c') -> forallb P xs = true -> Good b ctx c c' (concat (map code_of ys)).
Proof.
  intros Hg. induction xs as [|x xs IH]; intros c ys c' Hm HP.
  - apply mapM_nil_ok in Hm as [-> ->]. apply good_nil.
  - apply mapM_cons_ok in Hm as (y & c1 & ys' & Hy & Hys & ->).
    cbn [forallb] in HP. apply andb_true_iff in HP as [HP1 HP2].
    cbn [map concat]. eapply good_app; [eapply Hg; eassumption|eapply IH; eassumption].
Qed.

Lemma list_lemma f : Pstm f -> forall ss ctx c code c' b,
  lower_list (statement f) ss ctx c = Ok (code, c') -> forallb (lo_stmt b) ss = true -> Good b ctx c c' code.
Proof.
  intros IH ss ctx c code c' b Hl Hlo. apply lower_list_ok in Hl as (cs & Hm & ->).
  rewrite <- (map_id cs).
  eapply (mapM_good (fun s => statement f s ctx) (fun x => x) (lo_stmt b)); [|exact Hm|exact Hlo].
  intros x k y k' Hx HP. eapply IH; eassumption.
Qed.

Lemma exprs_lemma f : Pexp f -> forall es ctx c rs c' b,
  mapM (fun a => expression f a ctx) es c = Ok (rs, c') -> forallb (lo_expr b) es = true ->
  Good b ctx c c' (concat (map fst rs)).
Proof.
  intros IH es ctx c rs c' b Hm Hlo.
  eapply (mapM_good (fun a => expression f a ctx) fst (lo_expr b)); [|exact Hm|exact Hlo].
  intros x k y k' Hx HP. eapply IH; eassumption.
Qed.

Lemma fields_lemma f : Pexp f -> forall (fields : list (string * expr)) ctx c rs c' b,
  mapM (fun fe => r <- expression f (snd fe) ctx ;; ret (fst fe, r)) fields c = Ok (rs, c') ->
  forallb (fun fe : string * expr => let (_, x) := fe in lo_expr b x) fields = true ->
  Good b ctx c c' (concat (map (fun x : string * (list ir * N) => fst (snd x)) rs)).
Proof.
  intros IH fields ctx c rs c' b Hm Hlo.
  eapply (mapM_good _ (fun x : string * (list ir * N) => fst (snd x)) _); [|exact Hm|exact Hlo].
  intros [n x] k y k' Hx HP. apply bind_ok in Hx as (r & k1 & Hr & Hx). apply ret_ok in Hx as [<- <-].
  cbn [fst snd] in *. eapply IH; eassumption.
Qed.

Lemma forallb_rev_split {A} (P : A -> bool) l last init_rev :
  rev l = last :: init_rev -> forallb P l = true -> forallb P (rev init_rev) = true /\ P last = true.
Proof.
  intros E H. assert (El : l = rev init_rev ++ [last]) by (rewrite <- (rev_involutive l), E; reflexivity).
  subst l. rewrite forallb_app in H. apply andb_true_iff in H as [H1 H2]. cbn in H2.
  rewrite andb_true_r in H2. auto.
Qed.

(* expression_block *)
Lemma eblock_lemma f : Pexp f -> Pstm f -> forall out block ctx c code c' b,
  lower_eblock (statement f) (expression f) out block ctx c = Ok (code, c') ->
  forallb (lo_stmt b) block = true -> Good b ctx c c' code.
Proof.
  intros IHe IHs out block ctx c code c' b Hl Hlo. unfold lower_eblock in Hl.
  destruct (rev block) as [|last rest_rev] eqn:Erev; [eapply list_lemma; eassumption|].
  destruct last; try (eapply list_lemma; eassumption).
  destruct (forallb_rev_split _ _ _ _ Erev Hlo) as [Hl1 Hl2]. cbn [lo_stmt] in Hl2.
  apply bind_ok in Hl as (ops & c1 & Hops & Hl). apply bind_ok in Hl as (r & c2 & Hv & Hl).
  apply ret_ok in Hl as [<- <-].
  eapply good_app; [eapply list_lemma; eassumption|].
  eapply good_app; [eapply IHe; eassumption|]. apply good_plain. reflexivity.
Qed.

(* function bodies *)
Lemma fbody_lemma f : Pexp f -> Pstm f -> forall body ctx c code c' b,
  lower_fbody (statement f) (expression f) body ctx c = Ok (code, c') ->
  forallb (lo_stmt b) body = true -> Good b ctx c c' code.
Proof.
  intros IHe IHs body ctx c code c' b Hl Hlo. unfold lower_fbody in Hl.
  destruct (rev body) as [|last init_rev] eqn:Erev.
  - apply ret_ok in Hl as [<- <-]. apply good_nil.
  - destruct (forallb_rev_split _ _ _ _ Erev Hlo) as [Hl1 Hl2].
    apply bind_ok in Hl as (bc & c1 & Hb & Hl). apply bind_ok in Hl as (l & c2 & Hlast & Hl).
    apply ret_ok in Hl as [<- <-].
    eapply good_app; [eapply list_lemma; eassumption|].
    destruct last; try (eapply IHs; eassumption).
    apply bind_ok in Hlast as (r & c3 & Hv & Hlast). apply ret_ok in Hlast as [<- <-].
    cbn [lo_stmt] in Hl2.
    eapply good_app; [eapply IHe; eassumption|]. apply good_plain. reflexivity.
Qed.

(* ---------------------------------------------------------------- building blocks *)
Lemma good_nil_le b ctx c c' : c <= c' -> Good b ctx c c' [].
Proof. intros H. split; [exact H|]. intros st _. apply cfr_nil. Qed.
Lemma good_app' b ctx c k1 k2 c' a z :
  Good b ctx k1 k2 a -> c <= k1 -> Good b ctx k2 c' z -> Good b ctx c c' (a ++ z).
Proof.
  intros G1 H G2. pose proof (proj1 G1). pose proof (proj1 G2).
  apply (good_app b ctx c k2 c'); [eapply good_widen; [| |exact G1]; lia|exact G2].
Qed.
Lemma good_cons_plain b ctx c c' op code : plain op = true -> Good b ctx c c' code -> Good b ctx c c' (op :: code).
Proof.
  intros Hp [L G]. split; [exact L|]. intros st Hok. apply cfr_cons_plain; [exact Hp|apply G; exact Hok].
Qed.
Lemma good_plains b ctx c c' code : forallb plain code = true -> c <= c' -> Good b ctx c c' code.
Proof.
  intros H L. induction code as [|op code IH]; [apply good_nil_le; exact L|].
  cbn [forallb] in H. apply andb_true_iff in H as [H1 H2]. apply good_cons_plain; auto.
Qed.

(* `if v then blk [else] rest end` where the `else` / rest continue inside the construct *)
Lemma good_if_else b ctx c k1 k2 c' v blk rest :
  Good b ctx k1 k2 blk -> c <= k1 -> Good b ctx k2 c' rest ->
  Good b ctx c c' (IIf v :: (blk ++ IElse :: rest) ++ [IEnd]).
Proof.
  intros [L1 G1] L [L2 G2]. split; [lia|]. intros st Hok.
  apply cfr_if with (F := CElse). rewrite cf_run_app.
  assert (H1 : cfr (CIf :: st) blk) by (apply G1; apply ok_at_if; eapply ok_at_mono; [| |exact Hok]; lia).
  unfold cfr in H1. rewrite H1. cbn [cf_run cf_step].
  apply G2. apply ok_at_else. eapply ok_at_mono; [| |exact Hok]; lia.
Qed.
Lemma good_if_then b ctx c k1 k2 c' v blk rest :
  Good b ctx k1 k2 blk -> c <= k1 -> Good b ctx k2 c' rest ->
  Good b ctx c c' (IIf v :: (blk ++ rest) ++ [IEnd]).
Proof.
  intros [L1 G1] L [L2 G2]. split; [lia|]. intros st Hok.
  apply cfr_if with (F := CIf). apply cfr_app; [apply G1|apply G2]; apply ok_at_if;
    (eapply ok_at_mono; [| |exact Hok]; lia).
Qed.
Lemma good_function b ctx c k k' c' fv ps bc :
  Good false ctx k k' bc -> c <= k -> k' <= c' -> Good b ctx c c' (IFunction fv ps :: bc ++ [IEnd]).
Proof.
  intros [L1 G1] L2 L3. split; [lia|]. intros st _. apply cfr_function. apply G1. apply ok_at_fun.
Qed.
Lemma good_loop b ctx c k1 c' v cc bc :
  Good b ctx c k1 cc -> Good true k1 (k1 + 1) c' bc ->
  Good b ctx c c' (ILoop :: ILabel k1 :: cc ++ IIf v :: IElse :: IBreak :: IEnd :: bc ++ [IEnd]).
Proof.
  intros [L1 G1] [L2 G2]. split; [lia|]. intros st Hok.
  unfold cfr. cbn [cf_run cf_step].
  rewrite (ok_at_fresh _ _ _ _ k1 _ Hok) by lia.
  assert (H1 : cfr (CLoop (Some k1) :: st) cc).
  { apply G1. apply ok_at_loop_cond; [lia|]. eapply ok_at_mono; [| |exact Hok]; lia. }
  assert (H2 : cfr (CLoop (Some k1) :: st) bc).
  { apply G2. eapply ok_at_loop_body; [| | |exact Hok]; lia. }
  unfold cfr in H1, H2. rewrite cf_run_app, H1. cbn [cf_run cf_step in_loop]. rewrite cf_run_app, H2. reflexivity.
Qed.
Lemma good_break ctx c : Good true ctx c c [IBreak].
Proof.
  split; [lia|]. intros st [Ha _]. destruct (Ha eq_refl) as [Hin _]. unfold cfr. cbn [cf_run cf_step]. rewrite Hin. reflexivity.
Qed.
Lemma good_continue ctx c : Good true ctx c c [IGoto ctx].
Proof.
  split; [lia|]. intros st [Ha _]. destruct (Ha eq_refl) as [_ Hin]. apply has_label_iff in Hin.
  unfold cfr. cbn [cf_run cf_step]. rewrite Hin. reflexivity.
Qed.

(* ---------------------------------------------------------------- automation *)
Ltac inv H :=
  repeat match type of H with
  | bind fresh _ _ = Ok _ =>
      let v := fresh "v" in let k := fresh "k" in let Hf := fresh "Hf" in
      apply bind_ok in H as (v & k & Hf & H); apply fresh_ok in Hf as [-> ->]
  | bind _ _ _ = Ok _ =>
      let r := fresh "r" in let k := fresh "k" in let Hr := fresh "Hr" in
      apply bind_ok in H as (r & k & Hr & H)
  | ret _ _ = Ok _ => apply ret_ok in H as [<- <-]
  end.

Ltac split_lo :=
  repeat match goal with
  | H : _ && _ = true |- _ => apply andb_true_iff in H as [? ?]
  end.

Ltac les :=
  repeat match goal with
  | H : Good _ _ ?k ?k' _ |- _ =>
      lazymatch goal with
      | _ : k <= k' |- _ => fail
      | _ => pose proof (proj1 H)
      end
  end.

Ltac good :=
  les;
  repeat first
  [ apply good_nil_le; lia
  | eapply good_widen; [| |eassumption]; lia
  | eapply good_app'; [eassumption|lia|]
  | apply good_cons_plain; [reflexivity|] ].

Ltac app_norm2 := repeat (progress (rewrite <- ?app_assoc; cbn [app])).

(* the branches of an if-expression, followed by one End per branch *)
Lemma if_branches_lemma f : Pexp f -> Pstm f -> forall out brs ctx c codes c' b,
  mapM (lower_if_branch (statement f) (expression f) out ctx) brs c = Ok (codes, c') ->
  forallb (lo_ifbranch b) brs = true ->
  Good b ctx c c' (concat codes ++ map (fun _ => IEnd) brs).
Proof.
  intros IHe IHs out. induction brs as [|br brs IH]; intros ctx c codes c' b Hm Hlo.
  - apply mapM_nil_ok in Hm as [-> ->]. apply good_nil.
  - apply mapM_cons_ok in Hm as (cb & c1 & rest & Hb & Hrest & ->).
    cbn [forallb] in Hlo. apply andb_true_iff in Hlo as [Hlo1 Hlo2].
    specialize (IH _ _ _ _ _ Hrest Hlo2).
    rewrite const_map_snoc. cbn [concat].
    destruct br as [[cond|] body sp]; cbn [lower_if_branch] in Hb; cbn [lo_ifbranch] in Hlo1.
    + apply andb_true_iff in Hlo1 as [Hc Hbd]. inv Hb.
      apply (fun H => IHe _ _ _ _ _ _ H Hc) in Hr. apply (fun H => eblock_lemma f IHe IHs _ _ _ _ _ _ _ H Hbd) in Hr0.
      match goal with |- Good _ _ _ _ ?x =>
        replace x with (fst r ++ (IIf (snd r) :: (r0 ++ IElse :: concat rest ++ map (fun _ => IEnd) brs) ++ [IEnd]))
          by (app_norm2; reflexivity) end.
      les. eapply good_app'; [exact Hr|lia|]. eapply good_if_else; [exact Hr0|lia|exact IH].
    + cbn [andb] in Hlo1. inv Hb.
      apply (fun H => eblock_lemma f IHe IHs _ _ _ _ _ _ _ H Hlo1) in Hr.
      match goal with |- Good _ _ _ _ ?x =>
        replace x with (IBool c true :: IIf c :: (r ++ concat rest ++ map (fun _ => IEnd) brs) ++ [IEnd])
          by (app_norm2; reflexivity) end.
      les. apply good_cons_plain; [reflexivity|]. eapply good_if_then; [exact Hr|lia|exact IH].
Qed.

(* the arms of a case-expression, the fall-through block, and one End per arm *)
Lemma case_branches_lemma f : Pexp f -> Pstm f -> forall out tag value ft brs ctx c codes c1 ftc c' b,
  mapM (lower_case_branch (statement f) (expression f) out tag value ctx) brs c = Ok (codes, c1) ->
  lower_eblock (statement f) (expression f) out ft ctx c1 = Ok (ftc, c') ->
  forallb (lo_casebranch b) brs = true -> forallb (lo_stmt b) ft = true ->
  Good b ctx c c' (concat codes ++ ftc ++ map (fun _ => IEnd) brs).
Proof.
  intros IHe IHs out tag value ft.
  induction brs as [|br brs IH]; intros ctx c codes c1 ftc c' b Hm Hft Hlo Hlof.
  - apply mapM_nil_ok in Hm as [-> ->]. cbn [concat map app]. rewrite app_nil_r.
    eapply eblock_lemma; eassumption.
  - apply mapM_cons_ok in Hm as (cb & k0 & rest & Hb & Hrest & ->).
    cbn [forallb] in Hlo. apply andb_true_iff in Hlo as [Hlo1 Hlo2].
    specialize (IH _ _ _ _ _ _ _ Hrest Hft Hlo2 Hlof).
    rewrite const_map_snoc. cbn [concat].
    destruct br as [pat psp variable body sp]. cbn [lower_case_branch] in Hb. cbn [lo_casebranch] in Hlo1.
    inv Hb. apply (fun H => eblock_lemma f IHe IHs _ _ _ _ _ _ _ H Hlo1) in Hr.
    les. destruct variable as [v|].
    + match goal with |- Good _ _ _ _ ?x =>
        replace x with (IDefine v :: IAssign v value :: IStr k pat :: IEquals (k + 1) k tag ::
                        IIf (k + 1) :: (r ++ IElse :: concat rest ++ ftc ++ map (fun _ => IEnd) brs) ++ [IEnd])
          by (app_norm2; reflexivity) end.
      do 4 (apply good_cons_plain; [reflexivity|]).
      eapply good_if_else; [exact Hr|lia|]. eapply good_widen; [| |exact IH]; lia.
    + match goal with |- Good _ _ _ _ ?x =>
        replace x with (IStr k pat :: IEquals (k + 1) k tag ::
                        IIf (k + 1) :: (r ++ IElse :: concat rest ++ ftc ++ map (fun _ => IEnd) brs) ++ [IEnd])
          by (app_norm2; reflexivity) end.
      do 2 (apply good_cons_plain; [reflexivity|]).
      eapply good_if_else; [exact Hr|lia|]. eapply good_widen; [| |exact IH]; lia.
Qed.

(* ---------------------------------------------------------------- the main induction *)
Ltac use_ih f IHe IHs :=
  repeat match goal with
  | H : expression f ?e _ _ = Ok _, L : lo_expr _ ?e = true |- _ =>
      apply (fun X => IHe _ _ _ _ _ _ X L) in H
  | H : statement f ?s _ _ = Ok _, L : lo_stmt _ ?s = true |- _ =>
      apply (fun X => IHs _ _ _ _ _ _ X L) in H
  | H : mapM (fun a => expression f a _) ?es _ = Ok _, L : forallb (lo_expr _) ?es = true |- _ =>
      apply (fun X => exprs_lemma f IHe _ _ _ _ _ _ X L) in H
  | H : lower_list (statement f) ?ss _ _ = Ok _, L : forallb (lo_stmt _) ?ss = true |- _ =>
      apply (fun X => list_lemma f IHs _ _ _ _ _ _ X L) in H
  | H : lower_fbody _ _ ?ss _ _ = Ok _, L : forallb (lo_stmt _) ?ss = true |- _ =>
      apply (fun X => fbody_lemma f IHe IHs _ _ _ _ _ _ X L) in H
  | H : mapM (fun fe => _ <- expression f (snd fe) _ ;; _) ?fs _ = Ok _, L : forallb _ ?fs = true |- _ =>
      apply (fun X => fields_lemma f IHe _ _ _ _ _ _ X L) in H
  end.

Ltac auto_case f IHe IHs Hl :=
  inv Hl; split_lo; use_ih f IHe IHs; cbn [fst snd app]; good.

Lemma main : forall f, Pexp f /\ Pstm f /\ Pdef f.
Proof.
  induction f as [|f (IHe & IHs & IHd)].
  - repeat split; intros *; intros Hl; cbn in Hl; discriminate.
  - split; [|split].
    + intros e ctx c r c' b Hl Hlo.
      cbn [expression] in Hl.
      destruct e; cbn [lo_expr] in Hlo.
      * auto_case f IHe IHs Hl.
      * auto_case f IHe IHs Hl.
      * auto_case f IHe IHs Hl.
      * auto_case f IHe IHs Hl.
      * auto_case f IHe IHs Hl.
      * (* EBinOp *)
        destruct op; cbn [binop_ir] in Hl; try solve [auto_case f IHe IHs Hl].
        -- (* Nop *) inv Hl. discriminate Hl.
        -- (* And *)
           inv Hl. split_lo. use_ih f IHe IHs. cbn [fst snd]. les.
           eapply good_app'; [eassumption|lia|]. cbn [app].
           do 3 (apply good_cons_plain; [reflexivity|]).
           match goal with |- Good _ _ _ _ (IIf ?v :: ?cb ++ [?x; IEnd]) =>
             replace (IIf v :: cb ++ [x; IEnd]) with (IIf v :: (cb ++ [x]) ++ [IEnd])
               by (rewrite <- app_assoc; reflexivity) end.
           eapply good_if_then; [eassumption|lia|]. good.
        -- (* Or *)
           inv Hl. split_lo. use_ih f IHe IHs. cbn [fst snd]. les.
           eapply good_app'; [eassumption|lia|]. cbn [app].
           do 4 (apply good_cons_plain; [reflexivity|]).
           match goal with |- Good _ _ _ _ (IIf ?v :: ?cb ++ [?x; IEnd]) =>
             replace (IIf v :: cb ++ [x; IEnd]) with (IIf v :: (cb ++ [x]) ++ [IEnd])
               by (rewrite <- app_assoc; reflexivity) end.
           eapply good_if_then; [eassumption|lia|]. good.
      * (* EUniOp *) destruct op; auto_case f IHe IHs Hl.
      * (* EIf *)
        inv Hl. apply (fun X => if_branches_lemma f IHe IHs _ _ _ _ _ _ _ X Hlo) in Hr.
        cbn [fst snd app]. good.
      * (* ECase *)
        apply andb_true_iff in Hlo as [Hlo Hft]. apply andb_true_iff in Hlo as [Hm Hbr].
        inv Hl. use_ih f IHe IHs.
        assert (Hft' : forallb (lo_stmt b) (match fall_through with Some b0 => b0 | None => [] end) = true)
          by (destruct fall_through; [exact Hft|reflexivity]).
        pose proof (case_branches_lemma f IHe IHs _ _ _ _ _ _ _ _ _ _ _ _ Hr0 Hr1 Hbr Hft') as Gb.
        cbn [fst snd app]. les. eapply good_app'; [eassumption|lia|]. cbn [app]. good.
      * (* EFunction *)
        inv Hl. use_ih f IHe IHs. cbn [fst]. les. eapply good_function; [eassumption|lia|lia].
      * (* EBlob *) auto_case f IHe IHs Hl.
      * (* ECollection *) destruct c0; auto_case f IHe IHs Hl.
      * auto_case f IHe IHs Hl.
      * auto_case f IHe IHs Hl.
      * auto_case f IHe IHs Hl.
      * auto_case f IHe IHs Hl.
      * auto_case f IHe IHs Hl.
    + intros s ctx c code c' b Hl Hlo.
      cbn [statement] in Hl.
      destruct s; cbn [lo_stmt] in Hlo.
      * (* SAssignment *)
        apply andb_true_iff in Hlo as [Hlt Hlv].
        apply bind_ok in Hl as (res & k0 & Hf & Hl). apply fresh_ok in Hf as [-> ->].
        apply bind_ok in Hl as (pcp & k1 & Hpcp & Hl). destruct pcp as [[pre cur] post].
        apply bind_ok in Hl as (rv & k2 & Hrv & Hl). apply bind_ok in Hl as (opi & k3 & Hopi & Hl).
        apply ret_ok in Hl as [<- <-].
        assert (Hop : plain opi = true /\ k3 = k2)
          by (destruct op; try discriminate Hopi; apply ret_ok in Hopi as [<- <-]; split; reflexivity).
        destruct Hop as [Hop ->].
        assert (Hpre : Good b ctx (c + 1) k1 pre /\ forallb plain post = true).
        { destruct target; try discriminate Hpcp; cbn [lo_expr] in Hlt.
          - (* ERead *) apply ret_ok in Hpcp as [E <-]. inversion E; subst; clear E. split; [apply good_nil|reflexivity].
          - (* EBlobAccess *)
            apply bind_ok in Hpcp as (ra & j1 & Hra & Hpcp). apply bind_ok in Hpcp as (x & j2 & Hf & Hpcp).
            apply fresh_ok in Hf as [-> ->]. apply ret_ok in Hpcp as [E <-]. inversion E; subst; clear E.
            use_ih f IHe IHs. split; [good|reflexivity].
          - (* EIndex *)
            apply bind_ok in Hpcp as (ra & j1 & Hra & Hpcp). apply bind_ok in Hpcp as (rb & j2 & Hrb & Hpcp).
            apply bind_ok in Hpcp as (x & j3 & Hf & Hpcp).
            apply fresh_ok in Hf as [-> ->]. apply ret_ok in Hpcp as [E <-]. inversion E; subst; clear E.
            split_lo. use_ih f IHe IHs. split; [good|reflexivity]. }
        destruct Hpre as [Gpre Hpost]. use_ih f IHe IHs. les.
        eapply good_app'; [exact Gpre|lia|]. eapply good_app'; [eassumption|lia|]. cbn [app].
        apply good_cons_plain; [exact Hop|]. apply good_plains; [exact Hpost|lia].
      * (* SBlob *) discriminate Hl.
      * (* SEnum *) discriminate Hl.
      * (* SDefinition *) exact (IHd _ _ _ _ _ _ _ Hl Hlo).
      * (* SExternalDefinition *) discriminate Hl.
      * (* SLoop *)
        apply andb_true_iff in Hlo as [Hlc Hlb]. inv Hl. use_ih f IHe IHs. cbn [fst snd app].
        eapply good_loop; eassumption.
      * (* SBreak *) inv Hl. subst b. apply good_break.
      * (* SContinue *) inv Hl. subst b. apply good_continue.
      * (* SRet *) destruct value as [value|]; auto_case f IHe IHs Hl.
      * (* SBlock *) exact (list_lemma f IHs _ _ _ _ _ _ Hl Hlo).
      * (* SStatementExpression *) auto_case f IHe IHs Hl.
      * (* SUnreachable *) auto_case f IHe IHs Hl.
    + intros var value ctx c code c' b Hl Hlo.
      cbn [definition] in Hl.
      destruct value; try solve [auto_case f IHe IHs Hl].
      (* the function case *)
      cbn [lo_expr] in Hlo. inv Hl. use_ih f IHe IHs. les. eapply good_function; [eassumption|lia|lia].
Qed.

Lemma outer_lemma fuel : forall ss c cs c',
  mapM (compile_stmt fuel) ss c = Ok (cs, c') -> forallb (lo_stmt false) ss = true ->
  Good false 0 c c' (concat cs).
Proof.
  destruct (main fuel) as (_ & _ & IHd). intros ss c cs c' Hm Hlo.
  rewrite <- (map_id cs).
  eapply (mapM_good (compile_stmt fuel) (fun x => x) (lo_stmt false)); [|exact Hm|exact Hlo].
  intros s k y k' Hy HP.
  destruct s; cbn [compile_stmt] in Hy;
    try (apply ret_ok in Hy as [<- <-]; first [apply good_nil|apply good_plain; reflexivity]).
  cbn [lo_stmt] in HP. exact (IHd _ _ _ _ _ _ _ Hy HP).
Qed.

(* the rs_resolved hypothesis of lower_scoped is not needed here *)
Theorem lower_cf_ok : forall fuel r code,
  loops_ok r = true -> lower fuel r = Ok code -> ir_cf_ok code = true.
Proof.
  intros fuel r code Hlo Hl. unfold lower in Hl. unfold loops_ok in Hlo.
  match type of Hl with match ?m ?c0 with _ => _ end = _ => destruct (m c0) as [[code' cend]| |] eqn:Em; try discriminate end.
  inversion Hl; subst code'; clear Hl.
  apply bind_ok in Em as (cs & k1 & Hcs & Em).
  destruct (find_start (r_vars r)) as [start|]; [|discriminate Em].
  apply bind_ok in Em as (tmp & k2 & Hf & Em). apply fresh_ok in Hf as [-> ->]. apply ret_ok in Em as [<- <-].
  destruct (outer_lemma fuel _ _ _ _ Hcs Hlo) as [_ G].
  assert (Hok : ok_at false 0 (N.of_nat (length (r_vars r)) + 1) k1 []) by (split; [discriminate|intros l []]).
  specialize (G [] Hok). unfold cfr in G.
  unfold ir_cf_ok. rewrite cf_run_app, G. reflexivity.
Qed.

(* ---------------------------------------------------------------- non-vacuity *)
Definition sp0 := mkSpan 0 1 1 1 1.
Definition fn0 (body : list stmt) : expr := EFunction "lambda" [] (TImplied sp0) body false sp0.
Definition start_prog (body : list stmt) : resolved :=
  mkResolved [mkVar 0 "start" sp0 true Const; mkVar 1 "f" sp0 false Const]
             [SDefinition "start" 0 Const (TImplied sp0) (fn0 body) sp0].

(* start :: fn { break } *)
Definition prog_break_outside : resolved := start_prog [SBreak sp0].
(* start :: fn { loop true { f :: fn { continue } } }: the loop is not a loop of the inner function *)
Definition prog_continue_across_fn : resolved :=
  start_prog [SLoop (EBool true sp0) [SDefinition "f" 1 Const (TImplied sp0) (fn0 [SContinue sp0]) sp0] sp0].
(* start :: fn { loop true { loop false { continue } if true { break } else { continue } } } *)
Definition prog_loops : resolved :=
  start_prog [SLoop (EBool true sp0)
                [SLoop (EBool false sp0) [SContinue sp0] sp0;
                 SStatementExpression
                   (EIf [IfBranch (Some (EBool true sp0)) [SBreak sp0] sp0; IfBranch None [SContinue sp0] sp0] sp0) sp0]
                sp0].

Theorem break_outside_loop_refuted :
  exists code, loops_ok prog_break_outside = false /\ lower 10 prog_break_outside = Ok code /\ ir_cf_ok code = false.
Proof. eexists. split; [|split]; vm_compute; reflexivity. Qed.

Theorem continue_across_function_refuted :
  exists code, loops_ok prog_continue_across_fn = false /\ lower 10 prog_continue_across_fn = Ok code /\
               ir_cf_ok code = false.
Proof. eexists. split; [|split]; vm_compute; reflexivity. Qed.

Example loops_example :
  loops_ok prog_loops = true /\ exists code, lower 10 prog_loops = Ok code /\ ir_cf_ok code = true.
Proof. split; [|eexists; split]; vm_compute; reflexivity. Qed.

(* the checker separates the IR of a loop from the same IR without its label (the seeded mutation) *)
Example checker_rejects_missing_label :
  ir_cf_ok [IFunction 0 []; ILoop; ILabel 5; IBool 1 true; IIf 1; IGoto 5; IEnd; IEnd; IEnd] = true /\
  ir_cf_ok [IFunction 0 []; ILoop; IBool 1 true; IIf 1; IGoto 5; IEnd; IEnd; IEnd] = false.
Proof. split; vm_compute; reflexivity. Qed.
