-- expect-wf: ok
-- expect: ok
do
  goto l
  local x = 1
  ::l::
end
print('ok')
