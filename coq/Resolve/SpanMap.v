(* Applying a function `phi : span -> span` to every span of a parser AST (the mp_ functions), of a resolved program (the mr_ functions), of
   the resolver's state and of its errors.  Used to state that name resolution is natural in line and column
   numbers (Resolve/SpanMapProofs.v).  Definitions only. *)
From Coq Require Import String List NArith ZArith Bool.
From Sylt Require Import Syntax.Resolved Resolve.PAst Resolve.Resolver.
Import ListNotations.

Section Map.
Variable phi : span -> span.

(* ---- parser AST ---- *)
Definition mp_i (i : ident) : ident := mkIdent (i_name i) (phi (i_span i)).

Fixpoint mp_ta (t : ptassign) : ptassign :=
  match t with
  | TARead i sp => TARead (mp_i i) (phi sp)
  | TAAccess t' i sp => TAAccess (mp_ta t') (mp_i i) (phi sp)
  end.

Fixpoint mp_ty (t : pty) : pty :=
  match t with
  | PTImplied sp => PTImplied (phi sp)
  | PTResolved b sp => PTResolved b (phi sp)
  | PTUser ta args sp => PTUser (mp_ta ta) (map mp_ty args) (phi sp)
  | PTFn cs ps r p sp => PTFn cs (map mp_ty ps) (mp_ty r) p (phi sp)
  | PTTuple ts sp => PTTuple (map mp_ty ts) (phi sp)
  | PTList t' sp => PTList (mp_ty t') (phi sp)
  | PTGeneric n sp => PTGeneric n (phi sp)
  | PTGrouping t' sp => PTGrouping (mp_ty t') (phi sp)
  end.

Definition mp_un (n : usename) : usename :=
  match n with Implicit i => Implicit (mp_i i) | Alias i => Alias (mp_i i) end.

Definition mp_param (p : ident * pty) : ident * pty := (mp_i (fst p), mp_ty (snd p)).
Definition mp_oi (o : option ident) : option ident := match o with Some i => Some (mp_i i) | None => None end.

Fixpoint mp_e (e : pexpr) : pexpr :=
  match e with
  | PGet a sp => PGet (mp_a a) (phi sp)
  | PAdd a b sp => PAdd (mp_e a) (mp_e b) (phi sp)
  | PSub a b sp => PSub (mp_e a) (mp_e b) (phi sp)
  | PMul a b sp => PMul (mp_e a) (mp_e b) (phi sp)
  | PDiv a b sp => PDiv (mp_e a) (mp_e b) (phi sp)
  | PNeg a sp => PNeg (mp_e a) (phi sp)
  | PComparison a k b sp => PComparison (mp_e a) k (mp_e b) (phi sp)
  | PAssertEq a b sp => PAssertEq (mp_e a) (mp_e b) (phi sp)
  | PAnd a b sp => PAnd (mp_e a) (mp_e b) (phi sp)
  | POr a b sp => POr (mp_e a) (mp_e b) (phi sp)
  | PNot a sp => PNot (mp_e a) (phi sp)
  | PParenthesis a sp => PParenthesis (mp_e a) (phi sp)
  | PIf brs sp => PIf (map mp_b brs) (phi sp)
  | PCase tm brs ft sp =>
      PCase (mp_e tm) (map mp_c brs) (match ft with Some b => Some (map mp_s b) | None => None end) (phi sp)
  | PFunction nm ps rt body pure sp => PFunction nm (map mp_param ps) (mp_ty rt) (map mp_s body) pure (phi sp)
  | PBlob b fields sp => PBlob (mp_ta b) (map (fun f => (fst f, mp_e (snd f))) fields) (phi sp)
  | PTuple vs sp => PTuple (map mp_e vs) (phi sp)
  | PList vs sp => PList (map mp_e vs) (phi sp)
  | PFloat r sp => PFloat r (phi sp)
  | PInt z sp => PInt z (phi sp)
  | PStr s sp => PStr s (phi sp)
  | PBool b sp => PBool b (phi sp)
  | PNil sp => PNil (phi sp)
  end
with mp_a (a : passign) : passign :=
  match a with
  | ARead i sp => ARead (mp_i i) (phi sp)
  | AVariant x v value sp => AVariant (mp_a x) (mp_i v) (mp_e value) (phi sp)
  | ACall f args sp => ACall (mp_a f) (map mp_e args) (phi sp)
  | AArrowCall x f args sp => AArrowCall (mp_e x) (mp_a f) (map mp_e args) (phi sp)
  | AAccess x i sp => AAccess (mp_a x) (mp_i i) (phi sp)
  | AIndex x i sp => AIndex (mp_a x) (mp_e i) (phi sp)
  | AExpression e sp => AExpression (mp_e e) (phi sp)
  end
with mp_b (b : pifbranch) : pifbranch :=
  match b with
  | PIfBranch c body sp => PIfBranch (match c with Some c => Some (mp_e c) | None => None end) (map mp_s body) (phi sp)
  end
with mp_c (b : pcasebranch) : pcasebranch :=
  match b with
  | PCaseBranch pat v body => PCaseBranch (mp_i pat) (mp_oi v) (map mp_s body)
  end
with mp_s (s : pstmt) : pstmt :=
  match s with
  | PUse path nm file sp => PUse (mp_i path) (mp_un nm) file (phi sp)
  | PFromUse path imps file sp => PFromUse (mp_i path) (map (fun p => (mp_i (fst p), mp_oi (snd p))) imps) file (phi sp)
  | PBlobDef nm vars fields ext sp => PBlobDef (mp_i nm) (map mp_i vars) (map mp_param fields) ext (phi sp)
  | PEnumDef nm vars variants sp => PEnumDef (mp_i nm) (map mp_i vars) (map mp_param variants) (phi sp)
  | PAssignment op t v sp => PAssignment op (mp_a t) (mp_e v) (phi sp)
  | PDefinition i k t v sp => PDefinition (mp_i i) k (mp_ty t) (mp_e v) (phi sp)
  | PExternalDefinition i k t sp => PExternalDefinition (mp_i i) k (mp_ty t) (phi sp)
  | PLoop c b sp => PLoop (mp_e c) (mp_s b) (phi sp)
  | PBreak sp => PBreak (phi sp)
  | PContinue sp => PContinue (phi sp)
  | PRet v sp => PRet (match v with Some v => Some (mp_e v) | None => None end) (phi sp)
  | PBlock ss sp => PBlock (map mp_s ss) (phi sp)
  | PStatementExpression v sp => PStatementExpression (mp_e v) (phi sp)
  | PUnreachable sp => PUnreachable (phi sp)
  | PEmptyStatement sp => PEmptyStatement (phi sp)
  end.

Definition mp_module (m : pmodule) : pmodule := mkModule (m_file m) (m_file_id m) (map mp_s (m_stmts m)).
Definition mp_ast (ast : past) : past := map mp_module ast.

(* ---- resolved programs ---- *)
Fixpoint mr_ty (t : ty) : ty :=
  match t with
  | TUser r args sp => TUser r (map mr_ty args) (phi sp)
  | TImplied sp => TImplied (phi sp)
  | TResolved b sp => TResolved b (phi sp)
  | TGeneric n sp => TGeneric n (phi sp)
  | TTuple ts sp => TTuple (map mr_ty ts) (phi sp)
  | TList t' sp => TList (mr_ty t') (phi sp)
  | TFn cs ps r p sp => TFn cs (map mr_ty ps) (mr_ty r) p (phi sp)
  end.

Definition mr_param (p : string * N * span * ty) : string * N * span * ty :=
  (fst (fst (fst p)), snd (fst (fst p)), phi (snd (fst p)), mr_ty (snd p)).
Definition mr_field (f : string * (span * ty)) : string * (span * ty) := (fst f, (phi (fst (snd f)), mr_ty (snd (snd f)))).

Fixpoint mr_e (e : expr) : expr :=
  match e with
  | ERead v sp => ERead v (phi sp)
  | EVariant ev v value sp => EVariant ev v (mr_e value) (phi sp)
  | ECall f args sp => ECall (mr_e f) (map mr_e args) (phi sp)
  | EBlobAccess value field sp => EBlobAccess (mr_e value) field (phi sp)
  | EIndex value index sp => EIndex (mr_e value) (mr_e index) (phi sp)
  | EBinOp op a b sp => EBinOp op (mr_e a) (mr_e b) (phi sp)
  | EUniOp op a sp => EUniOp op (mr_e a) (phi sp)
  | EIf branches sp => EIf (map mr_b branches) (phi sp)
  | ECase m branches fall sp =>
    ECase (mr_e m) (map mr_c branches) (match fall with Some l => Some (map mr_s l) | None => None end) (phi sp)
  | EFunction name params rty body pure sp =>
    EFunction name (map mr_param params) (mr_ty rty) (map mr_s body) pure (phi sp)
  | EBlob blob fields self_var sp => EBlob blob (map (fun fe => (fst fe, mr_e (snd fe))) fields) self_var (phi sp)
  | ECollection k values sp => ECollection k (map mr_e values) (phi sp)
  | EFloat r sp => EFloat r (phi sp)
  | EInt z sp => EInt z (phi sp)
  | EStr s sp => EStr s (phi sp)
  | EBool b sp => EBool b (phi sp)
  | ENil sp => ENil (phi sp)
  end
with mr_b (b : ifbranch) : ifbranch :=
  match b with
  | IfBranch cond body sp => IfBranch (match cond with Some c => Some (mr_e c) | None => None end) (map mr_s body) (phi sp)
  end
with mr_c (b : casebranch) : casebranch :=
  match b with
  | CaseBranch pat psp var body sp => CaseBranch pat (phi psp) var (map mr_s body) (phi sp)
  end
with mr_s (s : stmt) : stmt :=
  match s with
  | SAssignment op target value sp => SAssignment op (mr_e target) (mr_e value) (phi sp)
  | SBlob name var sp tvars fields ext => SBlob name var (phi sp) tvars (map mr_field fields) ext
  | SEnum name var sp tvars variants => SEnum name var (phi sp) tvars (map mr_field variants)
  | SDefinition name var kind t value sp => SDefinition name var kind (mr_ty t) (mr_e value) (phi sp)
  | SExternalDefinition name var kind t sp => SExternalDefinition name var kind (mr_ty t) (phi sp)
  | SLoop cond body sp => SLoop (mr_e cond) (map mr_s body) (phi sp)
  | SBreak sp => SBreak (phi sp)
  | SContinue sp => SContinue (phi sp)
  | SRet value sp => SRet (match value with Some v => Some (mr_e v) | None => None end) (phi sp)
  | SBlock stmts sp => SBlock (map mr_s stmts) (phi sp)
  | SStatementExpression value sp => SStatementExpression (mr_e value) (phi sp)
  | SUnreachable sp => SUnreachable (phi sp)
  end.

Definition mr_var (v : var) : var := mkVar (v_id v) (v_name v) (phi (v_def v)) (v_global v) (v_kind v).
Definition mr_resolved (r : resolved) : resolved := mkResolved (map mr_var (r_vars r)) (map mr_s (r_stmts r)).

(* ---- the resolver's state and errors ---- *)
Definition mp_name (n : name) : name :=
  match n with NName r => NName r | NNamespace f sp => NNamespace f (phi sp) end.
Definition mp_tab (t : nstable) : nstable := map (fun p => (fst p, mp_name (snd p))) t.
Definition mp_st (st : rstate) : rstate :=
  mkSt (map (fun p => (fst p, mp_tab (snd p))) (st_ns st)) (st_stack st) (map mr_var (st_vars st)) (st_next st) (st_n2f st).
Definition mp_err (e : rerr) : rerr := mkRErr (e_kind e) (phi (e_span e)).

Definition mp_res {A B} (fa : A -> B) (r : res A) : res B :=
  match r with
  | Ok a => Ok (fa a)
  | Err es => Err (map mp_err es)
  | Panic s => Panic s
  | OutOfFuel => OutOfFuel
  end.

End Map.
