(* What the run-time tie of C01 evaluates (tools/props/c01.py, component "emit_ast"; ocaml/pres_driver.ml):
     parse_lua Lua53 (the real compiler's whole output) = ParseOk (chunk_ast code)
   for code = lower (real resolver output), and `frag` on the same resolver output.  Definitions only. *)
From Coq Require Import String List NArith ZArith Bool.
From Sylt Require Import Syntax.Resolved Back.IR Lua.LuaAst Lua.LuaParse Gen.GenPreamble Pres.EmitAst Pres.Frag.
Import ListNotations.

(* the preamble as the Lua parser model reads it (GenPreamble.preamble_src = the bytes of preamble.lua) *)
Definition pre_block : block :=
  match parse_lua Lua53 preamble_src with
  | ParseOk b => b
  | ParseErr _ _ => []
  end.

(* the abstract syntax of the whole emitted chunk: the preamble's statements, then the program's *)
Definition chunk_ast (code : list ir) : block := pre_block ++ emit_ast code.

Definition tie_ast (fuel : nat) (r : resolved) : option block :=
  match lower fuel r with
  | Ok code => Some (chunk_ast code)
  | _ => None
  end.
