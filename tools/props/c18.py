"""C18 -- standard-library containers and helpers meet their contracts."""
import collections
import json
import os

import hist_gen as H
import vlib

GEN = ["GenPreamble"]
TRUSTED = [
    "Coq 8.16.1 kernel (coqc); vm_compute for C18_preamble_doc / C18_std_doc / C18_functions_covered / C18_names_modelled, the example and the refutation witnesses; no axioms (Print Assumptions: Closed under the global context)",
    "translator tools/gens/gen_preamble.py (preamble.lua and std/*.sy -> names, shapes/kinds, digests of the defining text)",
    "coq/Sem/DocRuntime.v: the hand review of which Runtime function models which preamble / std definition",
    "coq/Sem/Runtime.v as the model of preamble.lua's list_* dict_* set_* div sign floor and of the std functions written in Sylt (contains, last, contains_key, min, max, abs, clamp, isJust, isNone, orDefault): modelled, not verified; validated by the correspondence",
    "coq/Sem/Containers.v: the plain models (list A, association-list maps and sets, option, Z/Q) are the specification",
    "LuaCore (coq/Lua/*.v, extracted) as the definition of what Lua 5.3 does with preamble.lua and with the compiler's output",
    "extraction: ExtrOcamlBasic + ExtrOcamlString only; ocaml/runtime_driver.ml",
    "tools/hist_gen.py: history generators, renderers, the plain Python models (list / dict / set) used by the oracle",
    "harness `compile` subcommand (real compiler, std bundled)",
]
ASSUMPTIONS = [
    "containers are modelled as values with the state threaded explicitly: aliasing one mutable container under two names is outside the model",
    "functions passed to map / filter / fold / find are pure and total",
    "numbers: unbounded integers, exact rational floats (no NaN/inf/rounding/wrap-around); Lua 5.3 is the reference interpreter",
    "random*, trigonometry, sqrt, pow, split, args, thread_sleep, as_* conversions, for_each, dict.map, set.map are outside C18's list and outside the model (named in DocRuntime.v)",
    "the order in which a dict or set prints its entries is not observed (only len / get / contains are)",
]
EXPLANATION = ("Refinement theorems: every list / dict / set operation of the Runtime model, and every sequence of them (induction over "
               "the history), computes what the plain model computes, for any element / key type with an embedding into run-time "
               "values; key injectivity of tostring is proved for strings and ints and refuted for floats and tuples with strings; "
               "library-made None is refuted to be == to Maybe.None; dict_remove is refuted for non-string keys; math helpers are "
               "proved against Z/Q. Table tie: every definition of preamble.lua and std/*.sy equals the reviewed list (name, shape, "
               "text digest). Correspondence: real preamble.lua under LuaCore vs the extracted model on generated histories, compiled "
               "Sylt programs vs the model; oracle: compiled programs vs Python lists / dicts / sets.")

_m = {}


# ---- known-finding classifiers: predicate on (history, index of the first wrong observation) -----------------

def _ops_upto(h, obs_index):
    per = 2 if isinstance(h, H.ListHistory) else 1
    return h.ops[:obs_index // per + 1]


def cls_none(h, i):
    ops = _ops_upto(h, i)
    return bool(ops) and ops[-1][0] == "geteq" and h.plain_get(ops[-1])[0] == "None"


def cls_remove(h, i):
    return isinstance(h, H.KeyedHistory) and h.kind == "dict" and h.kt != H.STR and any(o[0] == "remove" for o in _ops_upto(h, i))


def cls_collision(h, i):
    if not isinstance(h, H.KeyedHistory):
        return False
    keys = set()
    for o in h.ops:
        if o[0] == "fromlist":
            keys.update((k for k, _ in o[1]) if h.kind == "dict" else o[1])
        elif len(o) > 1:
            keys.add(o[1])
    shown = collections.Counter(H.show(k, h.kt) for k in keys)
    return any(n > 1 for n in shown.values())


def cls_negset(h, i):
    return isinstance(h, H.ListHistory) and any(o[0] == "set" and o[1] < 0 for o in _ops_upto(h, i))


CLASSIFIERS = [("library-none-differs-from-source-none", cls_none), ("dict-remove-non-string-key", cls_remove),
               ("key-tostring-collision", cls_collision), ("list-set-negative-index", cls_negset)]


def classify(h, i):
    if isinstance(h, H.AliasHistory):
        return None            # sharing of state between containers is not a known finding: always a violation
    for name, p in CLASSIFIERS:
        if p(h, i):
            return name
    return None


def open_known():
    return {kf.get("classifier") for kf in vlib.known_findings("C18") if kf.get("status") == "open"}


def build(ctx):
    ok, exe, out = H.build_model()
    _m["exe"] = exe
    if not ok:
        return False, out
    try:
        import lua_run
        lua_run.build()
    except Exception as e:       # noqa: BLE001
        return False, "lua_run build failed: %s" % e
    return True, out


def sizes(ctx):
    if ctx.tier == "quick":
        return {"lua_hist": 900, "maxops": 30, "e2e_maxops": 30, "lua_fn": 800, "programs": 130, "trigger": 10, "fn_programs": 12, "lua_alias": 300, "alias": 60}
    return {"lua_hist": 6000, "maxops": 200, "e2e_maxops": 60, "lua_fn": 20000, "programs": 600, "trigger": 80, "fn_programs": 100, "lua_alias": 4000, "alias": 500}


# ---- generation -------------------------------------------------------------------------------------------

COLLIDE = ["a, b", "c", "a", "b, c", "b", "a, b, c", ""]


def gen_lua_histories(ctx, n, maxops):
    r = vlib.rng(ctx.seed, "c18-lua")
    strs = H.STRS_SAFE + H.STRS_LUA_ONLY
    hs = []
    for i in range(n):
        k = r.randint(1, maxops if r.random() < 0.03 else min(maxops, 30))     # long histories are slow under LuaCore
        x = i % 3
        if x == 0:
            hs.append(H.gen_list_history(r, k, strs=strs, preamble_only=True, negative_set=True, geteq="any"))
        else:
            kind = "dict" if x == 1 else "set"
            if r.random() < 0.15:
                hs.append(H.gen_keyed_history(r, k, kind=kind, kt=H.TUP(H.STR, H.STR), strs=COLLIDE, preamble_only=True,
                                              geteq="any" if kind == "dict" else None, allow_collisions=True))
            else:
                kt = r.choice(H.KEY_TYPES + [H.FLOAT] + H.NESTED_KEY_TYPES)
                hs.append(H.gen_keyed_history(r, k, kind=kind, kt=kt, strs=strs, preamble_only=True,
                                              geteq="any" if kind == "dict" else None, allow_collisions=True))
    return hs


def gen_alias(ctx, n, salt, preamble_only):
    """histories that keep two or three containers alive, one made from another by filter / map / from_list"""
    r = vlib.rng(ctx.seed, salt)
    return [H.gen_alias_history(r, r.randint(3, 24), preamble_only=preamble_only) for _ in range(n)]


def model_line_or_none(h):
    """alias histories over lists of lists are outside the value model (the elements are shared on purpose)"""
    if isinstance(h, H.AliasHistory) and not h.in_model:
        return None
    return h.case_line()


def run_model(hs):
    lines = [model_line_or_none(h) for h in hs]
    outs = iter(H.model_lines(_m["exe"], [l for l in lines if l is not None]))
    return [H.decode_model(next(outs)) if l is not None else ("H", [], "UNSUP") for l in lines]


def gen_lua_fn_cases(ctx, n):
    r = vlib.rng(ctx.seed, "c18-fn")
    out = []
    for _ in range(n):
        x = r.random()
        num = lambda: (lambda t: (H.gen_value(r, t), t))(r.choice([H.INT, H.FLOAT]))
        if x < 0.3:
            out.append(H.OpCase("fn", "div", [num(), num()], "math"))
        elif x < 0.5:
            out.append(H.OpCase("fn", "sign", [num()], "math"))
        elif x < 0.7:
            out.append(H.OpCase("fn", "floor", [num()], "math"))
        elif x < 0.85:
            out.append(H.OpCase("fn", "rem", [num(), num()], "math"))
        elif x < 0.93:
            t = H.gen_type(r, 2, ("int", "str", "tuple", "list"))
            while t[0] not in ("tuple", "list"):
                t = H.gen_type(r, 2, ("int", "str", "tuple", "list"))
            out.append(H.OpCase("fn", "index", [(H.gen_value(r, t), t), (r.choice([0, 1, 2, 5, -1]), H.INT)], "index"))
        else:
            # tag and payload of a Maybe / enum value, as `case` reads them (payloads false, 0, "", (), [] included)
            t = r.choice([H.MAYBE(H.BOOL), H.MAYBE(H.BOOL), H.MAYBE(H.INT), H.MAYBE(H.STR), H.MAYBE(H.TUP(H.BOOL, H.INT)),
                          H.MAYBE(H.LIST(H.INT)), H.ENUM_E])
            out.append(H.OpCase("fn", "index", [(H.gen_value(r, t), t), (r.choice([1, 2, 2, 2, 3]), H.INT)], "index-variant"))
    return out


def hist_program(h):
    return H.sylt_program(h.sylt_lines())


def gen_e2e(ctx, nprog, maxops, ntrigger, salt="c18-e2e"):
    """(history, class): trigger histories aim at one class each -- the classes that were repaired in /repo stay here as regression
    inputs and are judged like everything else (only classes listed as open in known_findings.jsonl excuse)"""
    r = vlib.rng(ctx.seed, salt)
    out = []
    for i in range(nprog):
        k = r.randint(1, min(maxops, 30) if r.random() < 0.97 else maxops)
        x = i % 3
        if x == 0:
            out.append((H.gen_list_history(r, k, geteq="any", negative_set=True), "clean"))
        else:
            kind = "dict" if x == 1 else "set"
            kt = r.choice([H.INT, H.STR, H.TUP(H.INT, H.INT), H.STR, H.TUP(H.INT, H.STR), H.FLOAT, H.TUP(H.STR, H.STR)]
                          + H.NESTED_KEY_TYPES)
            strs = COLLIDE if kt == H.TUP(H.STR, H.STR) else H.STRS_SAFE      # printed forms may coincide: keys must not
            out.append((H.gen_keyed_history(r, k, kind=kind, kt=kt, strs=strs, geteq="any" if kind == "dict" else None,
                                            allow_collisions=True), "clean"))
    for i in range(ntrigger):
        k = r.randint(3, 14)
        x = i % 4
        if x == 0:
            if r.random() < 0.5:
                h = H.gen_list_history(r, k, geteq="any")
                h.ops.insert(r.randint(0, len(h.ops)), ("geteq", r.choice([50, 99, -1])))
            else:
                h = H.gen_keyed_history(r, k, kind="dict", kt=H.STR, geteq="any")
                h.ops.insert(r.randint(0, k), ("geteq", "no such key"))
            out.append((h.prepare(), "library-none-differs-from-source-none"))
        elif x == 1:
            h = H.gen_keyed_history(r, k, kind="dict", kt=r.choice([H.INT, H.TUP(H.INT, H.INT)]))
            key = [o[1] for o in h.ops if o[0] == "get"][0]
            at = r.randint(0, k)
            h.ops[at:at] = [("update", key, H.gen_value(r, h.vt, small=True)), ("remove", key)]
            out.append((h.prepare(), "dict-remove-non-string-key"))
        elif x == 2:
            h = H.gen_keyed_history(r, k, kind=r.choice(["dict", "set"]), kt=H.TUP(H.STR, H.STR), strs=COLLIDE,
                                    allow_collisions=True, remove=False)
            k1, k2 = ("a, b", "c"), ("a", "b, c")
            at = r.randint(0, k)
            if h.kind == "dict":
                h.ops[at:at] = [("update", k1, H.gen_value(r, h.vt, small=True)), ("update", k2, H.gen_value(r, h.vt, small=True)),
                                ("get", k1)]
            else:
                h.ops[at:at] = [("add", k1), ("add", k2), ("len",)]
            out.append((h.prepare(), "key-tostring-collision"))
        else:
            h = H.gen_list_history(r, k, et=H.INT, negative_set=True)
            at = r.randint(0, len(h.ops))
            h.ops[at:at] = [("push", 1), ("set", r.choice([-1, -2]), 7), ("len",)]
            out.append((h.prepare(), "list-set-negative-index"))
    return out


def first_diff(exp, got):
    for i, e in enumerate(exp):
        if i >= len(got) or not H.same_line(e, got[i]):
            return i
    return None


def flat_expected(h):
    e = h.expected()
    if isinstance(h, H.ListHistory):
        return [x for pair in e for x in pair]
    return e            # keyed and several-container histories are flat already


# ---- the correspondence -------------------------------------------------------------------------------------

def lua_level(ctx, dist):
    sz = sizes(ctx)
    hs = gen_lua_histories(ctx, sz["lua_hist"], sz["maxops"]) + gen_alias(ctx, sz["lua_alias"], "c18-lua-alias", True)
    model = run_model(hs)
    real = H.run_lua_bodies([h.lua_chunk() for h in hs], fuel=40000000 if ctx.tier != "quick" else 6000000)
    mism = []
    kinds, lens, ops, keyt, elemt = (collections.Counter() for _ in range(5))
    unsup = 0
    for h, m, o in zip(hs, model, real):
        lens[min(len(h.ops) // 10 * 10, 200)] += 1
        for op in h.ops:
            ops[op[0]] += 1
        if isinstance(h, H.ListHistory):
            kinds["list"] += 1
            elemt[H.sy_type(h.et)] += 1
        elif isinstance(h, H.AliasHistory):
            kinds["several:" + "+".join(h.kinds)] += 1
            elemt[H.sy_type(h.et)] += 1
            if not h.in_model:
                # lists of lists: the plain Python model (reference semantics) is the yardstick
                exp = h.expected()
                if o["final"] != "done" or o["trace"] != exp:
                    i = first_diff(exp, o["trace"])
                    mism.append({"where": "lua-level-plain", "lua": h.lua_chunk()[:1200], "at": i,
                                 "plain": exp[i] if i is not None and i < len(exp) else "<end>",
                                 "real": o["trace"][i] if i is not None and i < len(o["trace"]) else "<%s %s>" % (o["final"], o["msg"])})
                continue
        else:
            kinds[h.kind] += 1
            keyt[H.sy_type(h.kt)] += 1
        if m[0] != "H":
            mism.append({"where": "lua-level", "case": h.case_line()[:400], "model": str(m)[:200]})
            continue
        exp, tail = list(m[1]), m[2]
        got = list(o["trace"])
        if tail == "UNSUP":
            unsup += 1
            got = got[:len(exp)]
        elif tail == "ERR":
            exp.append("ERR")
        elif o["final"] != "done":
            got.append("<%s %s>" % (o["final"], o["msg"]))
        if exp != got:
            i = first_diff(exp, got)
            mism.append({"where": "lua-level", "case": h.case_line()[:600], "at": i,
                         "model": exp[i] if i is not None and i < len(exp) else "<end>",
                         "real": got[i] if i is not None and i < len(got) else "<end: %s %s>" % (o["final"], o["msg"])})
    # the Lua helpers div / sign / floor / rem and __INDEX
    fcases = gen_lua_fn_cases(ctx, sz["lua_fn"])
    fm = [H.decode_model(m) for m in H.model_lines(_m["exe"], [c.case_line() for c in fcases])]
    fr = H.run_op_cases_lua(fcases, fm)
    fmix = collections.Counter()
    for c, m, g in zip(fcases, fm, fr):
        fmix[c.name] += 1
        if m[0] != "R":
            mism.append({"where": "lua-level-fn", "case": c.case_line(), "model": str(m)})
        elif m[1] != "UNSUP" and m[1] != g:
            mism.append({"where": "lua-level-fn", "case": c.case_line(), "lua": c.lua_expr(), "model": m[1], "real": g})
    # corpus
    ncorp = 0
    d = os.path.join(vlib.VERIF, "corpus", "c18")
    if os.path.isdir(d):
        js = [json.load(open(os.path.join(d, f), encoding="utf-8")) for f in sorted(os.listdir(d)) if f.endswith(".json")]
        if js:
            cm = [H.decode_model(m) for m in H.model_lines(_m["exe"], [j["case"] for j in js])]
            cr = H.run_lua_bodies([j["lua"] for j in js])
            for j, m, o in zip(js, cm, cr):
                ncorp += 1
                exp = list(m[1]) if m[0] == "H" else [m[1]]
                got = list(o["trace"])
                if m[0] == "H" and m[2] == "UNSUP":
                    got = got[:len(exp)]
                if exp != got:
                    mism.append({"where": "corpus", "case": j["case"][:300], "model": exp[:6], "real": got[:6]})
    dist["lua_level"] = {"histories": len(hs), "containers": dict(kinds), "history_length_buckets": dict(lens),
                         "operation_mix": dict(ops), "key_types": dict(keyt), "element_types": dict(elemt),
                         "histories_leaving_the_model": unsup, "helper_cases": dict(fmix), "corpus": ncorp}
    nontrivial = len(set(h.lua_chunk() for h in hs if len(h.ops) >= 5))
    return mism, len(hs) + len(fcases) + ncorp, nontrivial


def judge(h, run, model):
    """-> (model-tie mismatch | None, oracle failure | None)"""
    tie_bad = oracle_bad = None
    exp = flat_expected(h)
    if run["status"] != "OK":
        return None, (0, exp[0] if exp else "", "rejected by the compiler: " + run["status"])
    got = run["trace"]
    if model[0] == "H":
        mexp, tail = list(model[1]), model[2]
        g = list(got)
        if tail == "UNSUP":
            g = g[:len(mexp)]
        elif tail is None and run["final"] != "done":
            g.append("<%s %s>" % (run["final"], run["msg"]))
        elif tail == "ERR" and run["final"] == "done":
            g.append("<done>")
        if mexp != g[:max(len(mexp), len(g))] and not (tail == "ERR" and g[:len(mexp)] == mexp and run["final"] == "error"):
            i = first_diff(mexp, g)
            if i is None:
                i = len(mexp)
            tie_bad = (i, mexp[i] if i < len(mexp) else "<end>", g[i] if i < len(g) else "<end>")
    else:
        tie_bad = (0, str(model), "")
    i = first_diff(exp, got)
    if i is None and len(got) != len(exp):
        i = len(exp)
    if i is not None:
        oracle_bad = (i, exp[i] if i < len(exp) else "<end>",
                      got[i] if i < len(got) else "<no output: %s %s>" % (run["final"], run["msg"]))
    return tie_bad, oracle_bad


def fn_programs(ctx, n, per=12):
    r = vlib.rng(ctx.seed, "c18-fnprog")
    progs = []
    for _ in range(n):
        cs = []
        while len(cs) < per:
            c = H.gen_fn_case(r)
            if H.writable(c):
                cs.append(c)
        progs.append((cs, H.op_program(cs)))
    return progs


def e2e(ctx, dist, items=None):
    sz = sizes(ctx)
    if items is None:
        items = gen_e2e(ctx, sz["programs"], sz["e2e_maxops"], sz["trigger"])
        items += [(h, "several-containers") for h in gen_alias(ctx, sz["alias"], "c18-e2e-alias", False)]
    runs = H.compile_run([hist_program(h) for h, _ in items], fuel=60000000 if ctx.tier != "quick" else 8000000)
    model = run_model([h for h, _ in items])
    known = open_known()
    mism, failures, hits = [], [], collections.Counter()
    ops, cont, keyt, elemt, cls_n = (collections.Counter() for _ in range(5))
    nobs = 0
    for (h, pcls), run, m in zip(items, runs, model):
        cls_n[pcls] += 1
        for op in h.ops:
            ops[op[0]] += 1
        if isinstance(h, H.ListHistory):
            cont["list"] += 1
            elemt[H.sy_type(h.et)] += 1
        elif isinstance(h, H.AliasHistory):
            cont["several:" + "+".join(h.kinds)] += 1
            elemt[H.sy_type(h.et)] += 1
        else:
            cont[h.kind] += 1
            keyt[H.sy_type(h.kt)] += 1
        nobs += len(flat_expected(h))
        tb, ob = judge(h, run, m)
        if tb:
            mism.append({"where": "e2e-model", "program": hist_program(h)[:1500], "at": tb[0], "model": tb[1], "real": tb[2]})
        if ob:
            name = classify(h, ob[0])
            if name and name in known:
                hits[name] += 1
            else:
                failures.append((h, ob, name))
                mism.append({"where": "oracle", "class": name or "UNCLASSIFIED", "at": ob[0], "expected": ob[1], "real": ob[2],
                             "program": hist_program(h)[:1500]})
    # math / Maybe helper programs
    fps = fn_programs(ctx, sz["fn_programs"])
    fruns = H.compile_run([p for _, p in fps])
    fmix = collections.Counter()
    for (cs, src), run in zip(fps, fruns):
        for i, c in enumerate(cs):
            fmix[c.name] += 1
            nobs += 1
            exp = c.expected()
            got = run["trace"][i] if run["status"] == "OK" and i < len(run["trace"]) else "<%s %s>" % (run["status"][:80], run["final"])
            if not H.same_line(exp, got):
                mism.append({"where": "oracle", "class": "UNCLASSIFIED", "expr": c.sylt_expr(), "expected": exp, "real": got})
                failures.append((c, (i, exp, got), None))
    # containers created inside functions from literals: a new container per evaluation (shared with C10)
    nact = 30 if ctx.tier == "quick" else 400
    act_bad = H.check_activation_programs(ctx, nact, salt="c18-activation")
    nobs += nact
    for src, exp, got in act_bad[:3]:
        mism.append({"where": "oracle", "class": "UNCLASSIFIED", "expected": exp[:12], "real": got[:12], "program": src[:1500]})
    ctx.c18_activation = act_bad
    dist["e2e"] = {"programs": len(items) + len(fps) + nact, "activation_container_programs": nact, "observations": nobs, "containers": dict(cont), "operation_mix": dict(ops),
                   "key_types": dict(keyt), "element_types": dict(elemt), "program_classes": dict(cls_n),
                   "helper_calls": dict(fmix), "accepted": sum(1 for r in runs if r["status"] == "OK"),
                   "known_finding_hits": dict(hits)}
    ctx.c18_failures = failures
    return mism, nobs


def tie(ctx):
    dist = {}
    m1, n1, nt = lua_level(ctx, dist)
    m2, n2 = e2e(ctx, dist)
    mism = m1 + m2
    r = vlib.rng(ctx.seed, "c18-samples")
    hs = [H.gen_list_history(r, 5, geteq="just"), H.gen_keyed_history(r, 4, kind="dict", kt=H.STR)]
    samples = [{"program": hist_program(h), "plain_model": flat_expected(h)[:12]} for h in hs]
    return {"name": "containers", "ok": not mism, "mismatches": mism[:10], "evaluations": n1 + n2, "distinct_nontrivial": nt,
            "rule": "(1) operation histories on lists (elements int, str, float, (int, str), (int, int)), dicts and sets (keys int, str, "
                    "float, (int, int), (str, str), (int, str), nested tuples up to depth 3 with keys that differ in one leaf; values int, str, (int, int), bool, float) performed through the functions of the "
                    "real preamble.lua under LuaCore and through the extracted Runtime model, every observation and (for lists) the "
                    "printed list after every operation compared; plus div / sign / floor / rem / __INDEX calls; (2) Sylt programs "
                    "(std bundled) that run a history and print every observation, compiled by the real compiler, run by LuaCore, "
                    "compared with the Runtime model and with Python lists / dicts / sets; every key of a keyed history is probed at "
                    "the end; (3) histories that keep two or three containers alive (lists of int, str, (int, str), (int, int), [int]; "
                    "a dict or set as third), one made from another by filter (accept-all / reject-all / mixed), map (identity / "
                    "+k), dict.from_list, set.from_list, followed by mutations of either and the printed form of every container "
                    "after every step -- against the model (results are new containers) and against Python's own reference "
                    "semantics; non-trivial = at least 5 operations; distinct by case text",
            "samples": samples, "distribution": dist}


def shrink_history(ctx, h, name):
    """delta-debug the operations of a failing history (same classification, still failing)"""
    def variants(cands):
        hs = []
        for ops in cands:
            if isinstance(h, H.ListHistory):
                hs.append(H.ListHistory(h.et, h.init, ops).prepare())
            elif isinstance(h, H.AliasHistory):
                hs.append(H.AliasHistory(h.et, h.kinds, list(h.ops[:h.ninit]) + list(ops)))
            else:
                hs.append(H.KeyedHistory(h.kind, h.kt, h.vt, ops).prepare())
        return hs

    def fails(cands):
        hs = variants(cands)
        runs = H.compile_run([hist_program(x) for x in hs])
        model = [("H", [], "UNSUP")] * len(hs)
        return [judge(x, run, m)[1] is not None for x, run, m in zip(hs, runs, model)]

    start = list(h.ops[h.ninit:]) if isinstance(h, H.AliasHistory) else list(h.ops)     # register declarations stay
    ops = vlib.shrink_seq(start, fails, max_rounds=40)
    return variants([ops])[0]


def search(ctx):
    act = getattr(ctx, "c18_activation", None)
    if act:
        src, exp, got = act[0]
        return {"class": "activation-containers", "files": {"/main.sy": src}, "expected": exp, "actual": got,
                "what": "a container literal inside a function is not a new container for every evaluation",
                "failing_inputs_found": len(act)}
    fails = getattr(ctx, "c18_failures", None)
    if not fails:
        if not _m.get("exe"):
            build(ctx)
        sz = sizes(ctx)
        items = gen_e2e(ctx, sz["programs"] * 2, sz["e2e_maxops"], sz["trigger"] * 2, salt="c18-search")
        items += [(h, "several-containers") for h in gen_alias(ctx, sz["alias"] * 2, "c18-search-alias", False)]
        e2e(ctx, {}, items)
        fails = ctx.c18_failures
    if not fails:
        return None
    hist = [f for f in fails if not isinstance(f[0], H.OpCase)]
    if hist:
        hist.sort(key=lambda f: len(f[0].ops))
        h, ob, name = hist[0]
        small = shrink_history(ctx, h, name)
        run = H.compile_run([hist_program(small)])[0]
        exp = flat_expected(small)
        return {"class": name or "UNCLASSIFIED", "files": {"/main.sy": hist_program(small)}, "expected": exp,
                "actual": run["trace"] if run["status"] == "OK" else run["status"], "final": run["final"], "msg": run["msg"],
                "what": "the compiled program's observations differ from the plain list / dict / set model",
                "replay_cmd": "python3 tools/check.py C18 --replay <this file>", "failing_inputs_found": len(fails)}
    c, ob, _ = fails[0]
    return {"class": "helper", "files": {"/main.sy": H.op_program([c])}, "expected": [ob[1]], "actual": ob[2],
            "what": "a math / Maybe helper returns something else than the plain model", "failing_inputs_found": len(fails)}


def run_witness(files, expected):
    run = H.compile_run([files["/main.sy"]])[0]
    ok = run["status"] == "OK" and run["final"] == "done" and len(run["trace"]) == len(expected) and all(
        H.same_line(a, b) for a, b in zip(expected, run["trace"]))
    return ok, run


def replay_known(ctx, kf):
    if not _m.get("exe"):
        build(ctx)
    w = kf.get("witness", {})
    ok, _ = run_witness(w["files"], w["expected"])
    return not ok


def replay(ctx, rep):
    fi = rep.get("failing_input") or {}
    if not fi:
        print("nothing to replay: no failing input in this file")
        return 0
    vlib.build_harness()
    build(ctx)
    ok, run = run_witness(fi["files"], fi["expected"])
    print("replay: expected", fi["expected"], "->", run["status"], run["final"], run["msg"], run["trace"])
    print("property holds" if ok else "property violated")
    return 0 if ok else 1
