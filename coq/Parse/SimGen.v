(* A simulation of the whole parser for any relation on contexts that the cursor primitives preserve.
   Used for: contexts that differ in the tokens behind the cursor (PreSim.v proves that instance separately) and
   contexts that differ by comments (CommentSim.v).  The relation [R] is a section variable; what is assumed of
   it is exactly: equal current token, equal newline flag, preservation by skip(n) and by setting the flag, and
   that Context::prev lands on related contexts when both cursors have moved past a non-comment token. *)
From Coq Require Import List NArith Bool Arith Lia.
From Sylt Require Import Syntax.Ast Syntax.Tok Parse.PrecTable Parse.Parser Parse.ParserProofs Parse.ParserTotal.
From Sylt Require Parse.LayoutSim.
Import ListNotations.

(* ------------------------------------------------------------------------------------------- *)
(* the token-only loops do not depend on their fuel once it exceeds the number of tokens ahead *)

Lemma skip_nl n c : nl (skip n c) = nl c.
Proof.
  unfold skip. destruct (adv (post c) n (pre c)) as [[p1 q1] l1]. destruct (strip (nl c) q1 p1). reflexivity.
Qed.

Lemma plen_skip n c : length (post (skip n c)) <= length (post c).
Proof. apply LayoutSim.skip_len_le. Qed.

Lemma plen_tok c t : token c = t -> t <> TEOF -> t <> TComment -> length (post (skip 1 c)) < length (post c).
Proof.
  intros Tk E0 E1. apply LayoutSim.skip1_len_tok.
  - unfold token in Tk. destruct (post c); [congruence|discriminate].
  - rewrite Tk. exact E1.
Qed.

Lemma plen_isk k c : is_k k c = true -> length (post (skip 1 c)) < length (post c).
Proof. intros H. apply (plen_tok c (TK k)); [apply LayoutSim.is_k_token; exact H|discriminate|discriminate]. Qed.

Lemma sat_skip_while : forall f g c, length (post c) < f -> length (post c) < g ->
  skip_while_nl f c = skip_while_nl g c.
Proof.
  induction f as [|f IH]; intros g c L L'; [lia|]. destruct g as [|g]; [lia|]. cbn [skip_while_nl].
  destruct (is_k KNewline c) eqn:E; [|reflexivity]. pose proof (plen_isk _ _ E). apply IH; lia.
Qed.

Lemma adv_len : forall ts n p, length (snd (fst (adv ts n p))) <= length ts.
Proof.
  induction ts as [|t ts IH]; intros n p; [destruct n; cbn; lia|].
  destruct n; [cbn; lia|]. cbn [adv]. specialize (IH (match t with TComment => S n | _ => n end) (t :: p)).
  cbn [length]. lia.
Qed.

Lemma plen_ne c : post c <> [] -> length (post (skip 1 c)) < length (post c).
Proof.
  intros Ne. unfold skip. destruct (post c) as [|t ts]; [congruence|]. cbn [adv].
  pose proof (adv_len ts (match t with TComment => 1 | _ => 0 end) (t :: pre c)) as A.
  destruct (adv ts (match t with TComment => 1 | _ => 0 end) (t :: pre c)) as [[p1 q1] l1]. cbn [fst snd] in A.
  pose proof (LayoutSim.strip_len (nl c) q1 p1) as S0. destruct (strip (nl c) q1 p1) as [p2 q2].
  cbn [post snd length] in *. lia.
Qed.

Lemma sat_skip_until k : forall f g c, length (post c) < f -> length (post c) < g ->
  skip_until_f f k c = skip_until_f g k c.
Proof.
  induction f as [|f IH]; intros g c L L'; [lia|]. destruct g as [|g]; [lia|]. cbn [skip_until_f].
  assert (D : post c <> [] -> skip_until_f f k (skip 1 c) = skip_until_f g k (skip 1 c))
    by (intros Ne; pose proof (plen_ne c Ne); apply IH; lia).
  assert (Ne : token c <> TEOF -> post c <> [])
    by (unfold token; destruct (post c); [congruence|intros _; discriminate]).
  destruct (token c) eqn:Tk; try reflexivity; (destruct (is_k k c); [reflexivity|apply D; apply Ne; discriminate]).
Qed.

Lemma sat_ta_inner : forall f g c acc, length (post c) < f -> length (post c) < g ->
  type_assignable_inner f c acc = type_assignable_inner g c acc.
Proof.
  induction f as [|f IH]; intros g c acc L L'; [lia|]. destruct g as [|g]; [lia|]. cbn [type_assignable_inner].
  destruct (token c) eqn:Tk; try reflexivity. destruct (is_capitalized s); [reflexivity|].
  unfold expect. destruct (is_k KDot (skip 1 c)); [|reflexivity]. cbn [bind].
  pose proof (plen_tok c _ Tk ltac:(discriminate) ltac:(discriminate)). pose proof (plen_skip 1 (skip 1 c)).
  apply IH; lia.
Qed.

Lemma sat_constraint_args : forall f g c acc, length (post c) < f -> length (post c) < g ->
  constraint_args f c acc = constraint_args g c acc.
Proof.
  induction f as [|f IH]; intros g c acc L L'; [lia|]. destruct g as [|g]; [lia|]. cbn [constraint_args].
  destruct (token c) eqn:Tk; try reflexivity.
  pose proof (plen_tok c _ Tk ltac:(discriminate) ltac:(discriminate)). apply IH; lia.
Qed.

Lemma sat_constraint f g c : length (post c) <= f -> length (post c) <= g -> constraint f c = constraint g c.
Proof.
  intros L L'. unfold constraint. destruct (token c) eqn:Tk; try reflexivity.
  pose proof (plen_tok c _ Tk ltac:(discriminate) ltac:(discriminate)).
  rewrite (sat_constraint_args f g (skip 1 c) []) by lia. reflexivity.
Qed.

(* what the constraint loops hand back is not before their start: needed to bound the next round *)
Lemma constraint_args_len : forall f c acc x c1, constraint_args f c acc = Ok (x, c1) -> length (post c1) <= length (post c).
Proof.
  induction f as [|f IH]; intros c acc x c1 H; [discriminate|]. cbn [constraint_args] in H.
  destruct (token c) as [v| | | | | |k|] eqn:Tk; try discriminate H.
  - apply IH in H. pose proof (plen_skip 1 c). lia.
  - destruct k; try discriminate H; inversion H; subst; lia.
Qed.

Lemma constraint_len f c x c1 : constraint f c = Ok (x, c1) -> length (post c1) < length (post c).
Proof.
  unfold constraint. destruct (token c) eqn:Tk; try discriminate.
  destruct (constraint_args f (skip 1 c) []) as [[a c2]| | |] eqn:E; try discriminate. cbn [bind].
  intros H. inversion H; subst. apply constraint_args_len in E.
  pose proof (plen_tok c _ Tk ltac:(discriminate) ltac:(discriminate)). lia.
Qed.

Lemma sat_constraints_inner : forall f g c ident lst m, length (post c) < f -> length (post c) < g ->
  constraints_inner f c ident lst m = constraints_inner g c ident lst m.
Proof.
  induction f as [|f IH]; intros g c ident lst m L L'; [lia|]. destruct g as [|g]; [lia|]. cbn [constraints_inner].
  destruct (constraint (local_fuel c) c) as [[k c1]| | |] eqn:E; try reflexivity. cbn [bind].
  pose proof (constraint_len _ _ _ _ E). pose proof (plen_skip 1 c1).
  destruct (token c1) as [| | | | | |k1|]; try reflexivity. destruct k1; try reflexivity. apply IH; lia.
Qed.

Lemma constraints_inner_len : forall f c ident lst m x b c1,
  constraints_inner f c ident lst m = Ok (x, b, c1) -> length (post c1) < length (post c).
Proof.
  induction f as [|f IH]; intros c ident lst m x b c1 H; [discriminate|]. cbn [constraints_inner] in H.
  destruct (constraint (local_fuel c) c) as [[k c2]| | |] eqn:E; try discriminate H. cbn [bind] in H.
  pose proof (constraint_len _ _ _ _ E). pose proof (plen_skip 1 c2).
  destruct (token c2) as [| | | | | |k1|]; try discriminate H. destruct k1; try discriminate H.
  - apply IH in H. lia.
  - inversion H; subst. lia.
  - inversion H; subst. lia.
Qed.

Lemma sat_constraints_outer : forall f g c m, length (post c) < f -> length (post c) < g ->
  constraints_outer f c m = constraints_outer g c m.
Proof.
  induction f as [|f IH]; intros g c m L L'; [lia|]. destruct g as [|g]; [lia|]. cbn [constraints_outer].
  destruct (look2 c) as [t1 t2]. destruct t1; try reflexivity. destruct t2 as [| | | | | |k|]; try reflexivity.
  destruct k; try reflexivity.
  destruct (constraints_inner (local_fuel c) (skip 1 (skip 1 c)) s [] m) as [[[m' again] c1]| | |] eqn:E; try reflexivity.
  cbn [bind]. destruct again; [|reflexivity].
  pose proof (constraints_inner_len _ _ _ _ _ _ _ _ E). pose proof (plen_skip 1 c). pose proof (plen_skip 1 (skip 1 c)). apply IH; lia.
Qed.

Lemma sat_path_loop : forall f g c acc, length (post c) < f -> length (post c) < g ->
  path_loop f c acc = path_loop g c acc.
Proof.
  induction f as [|f IH]; intros g c acc L L'; [lia|]. destruct g as [|g]; [lia|]. cbn [path_loop].
  destruct (token c) eqn:Tk; try reflexivity. cbv zeta.
  pose proof (plen_tok c _ Tk ltac:(discriminate) ltac:(discriminate)). pose proof (plen_skip 1 (skip 1 c)).
  destruct (is_k KSlash (skip 1 c)); apply IH; lia.
Qed.

Lemma sat_from_imports : forall f g c acc, length (post c) < f -> length (post c) < g ->
  from_imports f c acc = from_imports g c acc.
Proof.
  induction f as [|f IH]; intros g c acc L L'; [lia|]. destruct g as [|g]; [lia|]. cbn [from_imports].
  destruct (token c) eqn:Tk; try reflexivity. cbv zeta.
  pose proof (plen_tok c _ Tk ltac:(discriminate) ltac:(discriminate)).
  pose proof (plen_skip 1 (skip 1 c)). pose proof (plen_skip 1 (skip 1 (skip 1 c))).
  assert (K : forall al c2, length (post c2) <= length (post (skip 1 c)) ->
            match token c2 with
            | TK KComma | TK KRightParen | TK KNewline => from_imports f (skip_if KComma c2) (acc ++ [(s, al)])
            | _ => raise c2 end = match token c2 with
            | TK KComma | TK KRightParen | TK KNewline => from_imports g (skip_if KComma c2) (acc ++ [(s, al)])
            | _ => raise c2 end).
  { intros al c2 Hc2.
    assert (Ls : length (post (skip_if KComma c2)) <= length (post c2))
      by (unfold skip_if; destruct (is_k KComma c2); [apply plen_skip|lia]).
    destruct (token c2) as [| | | | | |k|]; try reflexivity. destruct k; try reflexivity; apply IH; lia. }
  destruct (is_k KAs (skip 1 c)).
  - destruct (token (skip 1 (skip 1 c))); cbn [bind raise]; try reflexivity. apply K. lia.
  - cbn [bind]. apply K. lia.
Qed.

Lemma sat_sep_vars : forall f g old c, length (post c) < f -> length (post c) < g ->
  sep_vars f old c = sep_vars g old c.
Proof.
  induction f as [|f IH]; intros g old c L L'; [lia|]. destruct g as [|g]; [lia|]. cbn [sep_vars].
  destruct (is_k KRightParen c); [reflexivity|].
  unfold expect at 1 3. destruct (is_k KStar c) eqn:Es; [|reflexivity]. cbn [bind].
  pose proof (plen_isk _ _ Es).
  destruct (token (skip 1 c)); try reflexivity.
  destruct (is_k KRightParen (skip 1 (skip 1 c))); [reflexivity|].
  unfold expect. destruct (is_k KComma (skip 1 (skip 1 c))); [|reflexivity]. cbn [bind].
  pose proof (plen_skip 1 (skip 1 c)). pose proof (plen_skip 1 (skip 1 (skip 1 c))).
  rewrite (IH g old (skip 1 (skip 1 (skip 1 c)))) by lia. reflexivity.
Qed.

(* ------------------------------------------------------------------------------------------- *)
Section Gen.
Variable R : ctx -> ctx -> Prop.
Hypothesis R_token : forall c c', R c c' -> token c' = token c.
Hypothesis R_nl : forall c c', R c c' -> nl c' = nl c.
Hypothesis R_skip : forall n c c', R c c' -> R (skip n c) (skip n c').
Hypothesis R_set_nl : forall b c c', R c c' -> R (set_nl b c) (set_nl b c').
Hypothesis R_prev_ltm : forall c2 c2' c c', R c2 c2' -> ltm c2 c -> ltm c2' c' -> R c c' ->
  exists cp cp', prev c = Some cp /\ prev c' = Some cp' /\ R cp cp'.

Lemma R_is_k k c c' : R c c' -> is_k k c' = is_k k c.
Proof. intros H. unfold is_k. rewrite (R_token _ _ H). reflexivity. Qed.

Lemma R_pop_nl b b' c c' : b = b' -> R c c' -> R (pop_nl b c) (pop_nl b' c').
Proof. intros <-. apply R_set_nl. Qed.

Lemma R_push_fst b c c' : R c c' -> R (fst (push_nl b c)) (fst (push_nl b c')).
Proof. intros H. unfold push_nl. cbn [fst]. apply R_skip. apply R_set_nl. exact H. Qed.

Lemma R_push_snd b c c' : R c c' -> snd (push_nl b c') = snd (push_nl b c).
Proof. intros H. unfold push_nl. cbn [snd]. apply R_nl. exact H. Qed.

Lemma R_skip_if k c c' : R c c' -> R (skip_if k c) (skip_if k c').
Proof.
  intros H. unfold skip_if. rewrite (R_is_k k _ _ H). destruct (is_k k c); [apply R_skip|]; exact H.
Qed.

Lemma R_skip_while : forall f c c', R c c' -> R (skip_while_nl f c) (skip_while_nl f c').
Proof.
  induction f as [|f IH]; intros c c' H; [exact H|]. cbn [skip_while_nl].
  rewrite (R_is_k _ _ _ H). destruct (is_k KNewline c); [apply IH; apply R_skip|]; exact H.
Qed.

Lemma R_skip_nls c c' : R c c' -> R (skip_nls c) (skip_nls c').
Proof.
  intros H. unfold skip_nls.
  rewrite (sat_skip_while (local_fuel c) (local_fuel c + local_fuel c') c),
          (sat_skip_while (local_fuel c') (local_fuel c + local_fuel c') c'); unfold local_fuel; try lia.
  apply R_skip_while. exact H.
Qed.

Lemma R_skip_until_f k : forall f c c', R c c' -> R (skip_until_f f k c) (skip_until_f f k c').
Proof.
  induction f as [|f IH]; intros c c' H; [exact H|]. cbn [skip_until_f].
  rewrite (R_token _ _ H), (R_is_k _ _ _ H).
  destruct (token c); try exact H; (destruct (is_k k c); [exact H|apply IH; apply R_skip; exact H]).
Qed.

Lemma R_skip_until k c c' : R c c' -> R (skip_until k c) (skip_until k c').
Proof.
  intros H. unfold skip_until.
  rewrite (sat_skip_until k (local_fuel c) (local_fuel c + local_fuel c') c),
          (sat_skip_until k (local_fuel c') (local_fuel c + local_fuel c') c'); unfold local_fuel; try lia.
  apply R_skip_until_f. exact H.
Qed.

Lemma R_after_arg c c' : R c c' -> R (after_arg c) (after_arg c').
Proof.
  intros H. unfold after_arg. cbv zeta.
  rewrite (R_token _ _ H), (R_token _ _ (R_skip_nls _ _ H)).
  destruct (tok_is KComma (token c) || tok_is KNewline (token c) && tok_is KComma (token (skip_nls c))).
  - apply R_skip_nls. apply R_skip. apply R_skip_nls. exact H.
  - exact H.
Qed.

(* ------------------------------------------------------------------------------------------- *)
(* programs, relationally *)

Definition eR (c : ctx) (es : list nat) (c' : ctx) (es' : list nat) : Prop := R c c' /\ length es = length es'.

Definition resrel {A : Type} (RA : A -> A -> Prop) (r r' : res A) : Prop :=
  match r, r' with
  | Ok a, Ok a' => RA a a'
  | Err c es, Err c' es' => eR c es c' es'
  | Fuel, Fuel => True
  | Panic, Panic => True
  | _, _ => False
  end.

(* a result paired with the context after it *)
Definition XR {A : Type} (x x' : A * ctx) : Prop := fst x = fst x' /\ R (snd x) (snd x').

Definition unpos (l : list (name * ty * nat)) : list (name * ty) := map fst l.

Definition qrel (q q' : req) : Prop :=
  match q, q' with
  | QPrec p c, QPrec p' c' => p = p' /\ R c c'
  | QLoop p l c, QLoop p' l' c' => p = p' /\ l = l' /\ R c c'
  | QSub a c, QSub a' c' => a = a' /\ R c c'
  | QArgs pr acc c, QArgs pr' acc' c' => pr = pr' /\ acc = acc' /\ R c c'
  | QTuple i acc c, QTuple i' acc' c' => i = i' /\ acc = acc' /\ R c c'
  | QList acc c, QList acc' c' => acc = acc' /\ R c c'
  | QFields acc c, QFields acc' c' => acc = acc' /\ R c c'
  | QElifs acc c, QElifs acc' c' => acc = acc' /\ R c c'
  | QCases acc c, QCases acc' c' => acc = acc' /\ R c c'
  | QParams acc c, QParams acc' c' => acc = acc' /\ R c c'
  | QType c, QType c' => R c c'
  | QSepTypes o c, QSepTypes o' c' => o = o' /\ R c c'
  | QFnTyParams acc c, QFnTyParams acc' c' => acc = acc' /\ R c c'
  | QTyTuple i acc c, QTyTuple i' acc' c' => i = i' /\ acc = acc' /\ R c c'
  | QStmts acc errs c, QStmts acc' errs' c' => acc = acc' /\ length errs = length errs' /\ R c c'
  | QStmt c, QStmt c' => R c c'
  | QEnumItems acc c, QEnumItems acc' c' => unpos acc = unpos acc' /\ R c c'
  | QBlobFields acc c, QBlobFields acc' c' => acc = acc' /\ R c c'
  | _, _ => False      (* the module loop looks at absolute positions; it is not reached from a statement *)
  end.

Definition orel (o o' : out) : Prop :=
  match o, o' with
  | RE e c, RE e' c' => e = e' /\ R c c'
  | RA a c, RA a' c' => a = a' /\ R c c'
  | REs es c, REs es' c' => es = es' /\ R c c'
  | RTup i es c, RTup i' es' c' => i = i' /\ es = es' /\ R c c'
  | RFs fs c, RFs fs' c' => fs = fs' /\ R c c'
  | RIfs bs c, RIfs bs' c' => bs = bs' /\ R c c'
  | RCases bs c, RCases bs' c' => bs = bs' /\ R c c'
  | RParams ps r c, RParams ps' r' c' => ps = ps' /\ r = r' /\ R c c'
  | RT t c, RT t' c' => t = t' /\ R c c'
  | RTs ts c, RTs ts' c' => ts = ts' /\ R c c'
  | RFnTy ps r c, RFnTy ps' r' c' => ps = ps' /\ r = r' /\ R c c'
  | RTyTup i ts c, RTyTup i' ts' c' => i = i' /\ ts = ts' /\ R c c'
  | RSs ss c, RSs ss' c' => ss = ss' /\ R c c'
  | RS s c, RS s' c' => s = s' /\ R c c'
  | RNTs l c, RNTs l' c' => l = l' /\ R c c'
  | REnum l c, REnum l' c' => unpos l = unpos l' /\ R c c'
  | _, _ => False
  end.

(* what a successful statement is known to have done (ParserTotal): consumed a non-comment token *)
Definition UPost (q : req) (o : out) : Prop :=
  match q, o with
  | QStmt c, RS _ c' => ltm c c'
  | _, _ => True
  end.

Inductive prel {A : Type} (RA : A -> A -> Prop) : prog A -> prog A -> Prop :=
| prel_ret r r' : resrel RA r r' -> prel RA (Ret r) (Ret r')
| prel_call q q' k k' e e' :
    qrel q q' ->
    (forall o o', orel o o' -> UPost q o -> UPost q' o' -> prel RA (k o) (k' o')) ->
    (forall c es c' es', eR c es c' es' -> prel RA (e c es) (e' c' es')) ->
    prel RA (Call q k e) (Call q' k' e').

Lemma run_rel {A : Type} (RA : A -> A -> Prop) (rec rec' : req -> res out) :
  (forall q q', qrel q q' -> resrel orel (rec q) (rec' q')) ->
  (forall q o, rec q = Ok o -> UPost q o) -> (forall q o, rec' q = Ok o -> UPost q o) ->
  forall m m', prel RA m m' -> resrel RA (run rec m) (run rec' m').
Proof.
  intros HR HU HU' m m' H. induction H as [r r' Hr|q q' k k' e e' Hq Hk IHk He IHe].
  - exact Hr.
  - cbn [run]. specialize (HR q q' Hq). unfold resrel in HR.
    pose proof (HU q) as U. pose proof (HU' q') as U'.
    destruct (rec q) as [o|c es| |], (rec' q') as [o'|c' es'| |]; try contradiction; try exact I.
    + apply IHk; [exact HR|apply U; reflexivity|apply U'; reflexivity].
    + apply IHe. exact HR.
Qed.

Lemma ptry_rel {A B : Type} (RA : A -> A -> Prop) (RB : B -> B -> Prop) m m' (k k' : A -> prog B)
  (e e' : ctx -> list nat -> prog B) :
  prel RA m m' -> (forall a a', RA a a' -> prel RB (k a) (k' a')) ->
  (forall c es c' es', eR c es c' es' -> prel RB (e c es) (e' c' es')) ->
  prel RB (ptry m k e) (ptry m' k' e').
Proof.
  intros H Hk He. induction H as [r r' Hr|q q' k0 k0' e0 e0' Hq Hk0 IHk He0 IHe].
  - destruct r as [a|c es| |], r' as [a'|c' es'| |]; try contradiction; cbn [ptry].
    + apply Hk. exact Hr.
    + apply He. exact Hr.
    + constructor. exact I.
    + constructor. exact I.
  - cbn [ptry]. constructor; [exact Hq| |].
    + intros o o' Ho U U'. apply IHk; assumption.
    + intros c es c' es' E. apply IHe. exact E.
Qed.

Lemma prel_weaken {A : Type} (RA RB : A -> A -> Prop) m m' :
  (forall a a', RA a a' -> RB a a') -> prel RA m m' -> prel RB m m'.
Proof.
  intros W H. induction H as [r r' Hr|q q' k k' e e' Hq Hk IHk He IHe].
  - constructor. destruct r, r'; try contradiction; try exact Hr; try exact I. apply W. exact Hr.
  - constructor; [exact Hq| |]; assumption.
Qed.

Lemma prel_ok {A : Type} (RA : A -> A -> Prop) a a' : RA a a' -> prel RA (ok a) (ok a').
Proof. intros H. constructor. exact H. Qed.
Lemma prel_raise {A : Type} (RA : A -> A -> Prop) c c' : R c c' -> prel RA (praise c) (praise c').
Proof. intros H. constructor. split; [apply R_skip; exact H|reflexivity]. Qed.
Lemma prel_reraise {A : Type} (RA : A -> A -> Prop) c es c' es' : eR c es c' es' -> prel RA (reraise c es) (reraise c' es').
Proof. intros H. constructor. exact H. Qed.
Lemma prel_panic {A : Type} (RA : A -> A -> Prop) : prel RA panic panic.
Proof. constructor. exact I. Qed.

Lemma prel_if {A : Type} (RA : A -> A -> Prop) (b b' : bool) m1 m1' m2 m2' :
  b' = b -> (b = true -> prel RA m1 m1') -> (b = false -> prel RA m2 m2') ->
  prel RA (if b then m1 else m2) (if b' then m1' else m2').
Proof. intros -> H1 H2. destruct b; [apply H1|apply H2]; reflexivity. Qed.

Lemma bind_rel {A B : Type} (RA : A -> A -> Prop) (RB : B -> B -> Prop) m m' (k k' : A -> prog B) :
  prel RA m m' -> (forall a a', RA a a' -> prel RB (k a) (k' a')) ->
  prel RB (ptry m k reraise) (ptry m' k' reraise).
Proof. intros H Hk. apply (ptry_rel RA); [exact H|exact Hk|]. intros. apply prel_reraise. assumption. Qed.

Lemma pexpect_rel k c c' : R c c' -> prel R (pexpect k c) (pexpect k c').
Proof.
  intros H. unfold pexpect, expect. rewrite (R_is_k k _ _ H). destruct (is_k k c).
  - constructor. apply R_skip. exact H.
  - constructor. split; [apply R_skip; exact H|reflexivity].
Qed.

Lemma call_rel q q' : qrel q q' -> prel orel (call q) (call q').
Proof.
  intros H. unfold call. constructor; [exact H| |].
  - intros o o' Ho _ _. apply prel_ok. exact Ho.
  - intros. apply prel_reraise. assumption.
Qed.

Lemma call_get_rel {A : Type} (RA : A -> A -> Prop) (get : out -> prog A) q q' :
  (forall o o', orel o o' -> prel RA (get o) (get o')) -> qrel q q' ->
  prel RA (Call q get reraise) (Call q' get reraise).
Proof.
  intros G H. constructor; [exact H| |].
  - intros o o' Ho _ _. apply G. exact Ho.
  - intros. apply prel_reraise. assumption.
Qed.

Ltac getter := intros o o' Ho; destruct o, o'; cbn [orel] in Ho; try contradiction; try apply prel_panic;
  apply prel_ok; unfold XR; cbn [fst snd]; intuition congruence.

Lemma get_E_rel o o' : orel o o' -> prel XR (get_E o) (get_E o'). Proof. revert o o'. getter. Qed.
Lemma get_A_rel o o' : orel o o' -> prel XR (get_A o) (get_A o'). Proof. revert o o'. getter. Qed.
Lemma get_Es_rel o o' : orel o o' -> prel XR (get_Es o) (get_Es o'). Proof. revert o o'. getter. Qed.
Lemma get_Tup_rel o o' : orel o o' -> prel XR (get_Tup o) (get_Tup o'). Proof. revert o o'. getter. Qed.
Lemma get_Fs_rel o o' : orel o o' -> prel XR (get_Fs o) (get_Fs o'). Proof. revert o o'. getter. Qed.
Lemma get_Ifs_rel o o' : orel o o' -> prel XR (get_Ifs o) (get_Ifs o'). Proof. revert o o'. getter. Qed.
Lemma get_Cases_rel o o' : orel o o' -> prel XR (get_Cases o) (get_Cases o'). Proof. revert o o'. getter. Qed.
Lemma get_Params_rel o o' : orel o o' -> prel XR (get_Params o) (get_Params o'). Proof. revert o o'. getter. Qed.
Lemma get_T_rel o o' : orel o o' -> prel XR (get_T o) (get_T o'). Proof. revert o o'. getter. Qed.
Lemma get_Ts_rel o o' : orel o o' -> prel XR (get_Ts o) (get_Ts o'). Proof. revert o o'. getter. Qed.
Lemma get_FnTy_rel o o' : orel o o' -> prel XR (get_FnTy o) (get_FnTy o'). Proof. revert o o'. getter. Qed.
Lemma get_TyTup_rel o o' : orel o o' -> prel XR (get_TyTup o) (get_TyTup o'). Proof. revert o o'. getter. Qed.
Lemma get_Ss_rel o o' : orel o o' -> prel XR (get_Ss o) (get_Ss o'). Proof. revert o o'. getter. Qed.
Lemma get_S_rel o o' : orel o o' -> prel XR (get_S o) (get_S o'). Proof. revert o o'. getter. Qed.
Lemma get_NTs_rel o o' : orel o o' -> prel XR (get_NTs o) (get_NTs o'). Proof. revert o o'. getter. Qed.

(* ------------------------------------------------------------------------------------------- *)
(* tactics *)

Hint Resolve R_skip R_set_nl R_push_fst R_skip_if R_skip_nls R_skip_until R_after_arg : rsim.
Hint Extern 2 (R (pop_nl _ _) (pop_nl _ _)) => apply R_pop_nl; [reflexivity|] : rsim.
Ltac rsolve := lazymatch goal with |- R _ _ => solve [eauto 12 with rsim nocore] end.

(* b' = b for two tests that differ only in related contexts *)
Ltac beq := first [reflexivity | (apply R_token; rsolve) | (apply R_is_k; rsolve) | (apply R_nl; rsolve)
                  | (progress f_equal; beq)].

Lemma R_push c c' b c2 o c2' o' : R c c' -> push_nl b c = (c2, o) -> push_nl b c' = (c2', o') -> R c2 c2' /\ o' = o.
Proof.
  intros H E E'. pose proof (R_push_fst b _ _ H) as A. pose proof (R_push_snd b _ _ H) as B.
  rewrite E, E' in A, B. split; [exact A|exact B].
Qed.

(* name the two results of the outermost push_nl and relate them *)
Ltac dpush2 :=
  match goal with
  | |- prel _ ?m ?m' =>
      match m with
      | context [push_nl ?f ?c] =>
          match m' with
          | context [push_nl f ?c'] =>
              let c2 := fresh "cp" in let o := fresh "old" in let c2' := fresh "cp'" in let o' := fresh "old'" in
              let E := fresh "E" in let E' := fresh "E'" in let H := fresh "HP" in
              destruct (push_nl f c) as [c2 o] eqn:E; destruct (push_nl f c') as [c2' o'] eqn:E';
              assert (H : R c2 c2' /\ o' = o) by (apply (R_push c c' f c2 o c2' o'); [rsolve|exact E|exact E']);
              clear E E'; destruct H as [H ->]
          end
      end
  end.

(* split a related pair of results *)
Ltac xr_intro :=
  let x := fresh "x" in let x' := fresh "x'" in let HX := fresh "HX" in
  intros x x' HX;
  repeat match goal with p : (_ * _)%type |- _ => destruct p end;
  unfold XR in HX; cbn [fst snd] in HX;
  let HE := fresh "HE" in let HR := fresh "HR" in
  destruct HX as [HE HR];
  repeat match type of HE with (_, _) = (_, _) => let H1 := fresh in injection HE as HE H1; try subst end;
  try subst; cbv beta iota zeta.

(* ------------------------------------------------------------------------------------------- *)
(* the token-only loops *)

(* two local fuels, both sufficient: go to a common one *)
Definition lf2 (c c' : ctx) : nat := local_fuel c + local_fuel c'.
Lemma lf2_l c c' x : length (post x) <= length (post c) -> length (post x) < lf2 c c'.
Proof. unfold lf2, local_fuel. lia. Qed.
Lemma lf2_r c c' x : length (post x) <= length (post c') -> length (post x) < lf2 c c'.
Proof. unfold lf2, local_fuel. lia. Qed.
Lemma lf_ok c x : length (post x) <= length (post c) -> length (post x) < local_fuel c.
Proof. unfold local_fuel. lia. Qed.
Lemma plen_skip2 n m c : length (post (skip n (skip m c))) <= length (post c).
Proof. pose proof (plen_skip n (skip m c)). pose proof (plen_skip m c). lia. Qed.

Lemma resrel_raise {A : Type} (RA : A -> A -> Prop) c c' : R c c' -> resrel RA (raise c) (raise c').
Proof. intros H. split; [apply R_skip; exact H|reflexivity]. Qed.

Lemma expect_rel k c c' : R c c' -> resrel R (expect k c) (expect k c').
Proof.
  intros H. unfold expect. rewrite (R_is_k k _ _ H). destruct (is_k k c); [apply R_skip; exact H|].
  apply resrel_raise. exact H.
Qed.

Lemma rbind_rel {A B : Type} (RA : A -> A -> Prop) (RB : B -> B -> Prop) m m' (k k' : A -> res B) :
  resrel RA m m' -> (forall a a', RA a a' -> resrel RB (k a) (k' a')) -> resrel RB (bind m k) (bind m' k').
Proof.
  intros H Hk. destruct m as [a|c es| |], m' as [a'|c' es'| |]; try contradiction; cbn [bind]; try exact I.
  - apply Hk. exact H.
  - exact H.
Qed.

Lemma resrel_if {A : Type} (RA : A -> A -> Prop) (b b' : bool) (m1 m1' m2 m2' : res A) :
  b' = b -> (b = true -> resrel RA m1 m1') -> (b = false -> resrel RA m2 m2') ->
  resrel RA (if b then m1 else m2) (if b' then m1' else m2').
Proof. intros -> H1 H2. destruct b; [apply H1|apply H2]; reflexivity. Qed.

Ltac psim1 :=
  lazymatch goal with
  | |- resrel _ (Ok _) (Ok _) =>
      cbn [resrel]; first [rsolve | (unfold XR; cbn [fst snd]; split; [reflexivity|rsolve])]
  | |- resrel _ (raise _) (raise _) => apply resrel_raise; rsolve
  | |- resrel _ Fuel Fuel => exact I
  | |- resrel _ Panic Panic => exact I
  | |- resrel _ (expect _ _) (expect _ _) => apply expect_rel; rsolve
  | |- resrel _ (bind ?m _) (bind _ _) =>
      lazymatch type of m with
      | res ctx => apply (rbind_rel R); [|let a := fresh "cx" in let a' := fresh "cx'" in let H := fresh "HR" in
                                          intros a a' H; cbv beta iota zeta]
      | _ => apply (rbind_rel XR); [|xr_intro]
      end
  | |- resrel _ (if ?b then _ else _) (if ?b' then _ else _) => apply resrel_if; [beq|intros _|intros _]
  | |- resrel _ (match token ?x with _ => _ end) (match token ?y with _ => _ end) =>
      replace (token y) with (token x) by (symmetry; apply R_token; rsolve);
      let Tk := fresh "Tk" in destruct (token x) eqn:Tk
  | |- resrel _ (match ?k with KNil => _ | _ => _ end) (match ?k with KNil => _ | _ => _ end) => destruct k
  end.
Ltac psims := repeat (cbv beta zeta; psim1).

Lemma ta_inner_rel : forall f c c' acc, R c c' ->
  resrel XR (type_assignable_inner f c acc) (type_assignable_inner f c' acc).
Proof.
  induction f as [|f IH]; intros c c' acc H; [exact I|]. cbn [type_assignable_inner].
  psims. apply IH. exact HR.
Qed.

Lemma ta_rel c c' : R c c' -> resrel XR (type_assignable c) (type_assignable c').
Proof.
  intros H. unfold type_assignable. rewrite (R_token _ _ H).
  destruct (token c); try (apply resrel_raise; exact H).
  destruct (is_capitalized s); [psims|].
  unfold expect. rewrite (R_is_k KDot _ _ (R_skip 1 _ _ H)).
  destruct (is_k KDot (skip 1 c)); [|apply resrel_raise; rsolve]. cbn [bind].
  rewrite (sat_ta_inner (local_fuel c) (lf2 c c') (skip 1 (skip 1 c))),
          (sat_ta_inner (local_fuel c') (lf2 c c') (skip 1 (skip 1 c')));
    [apply ta_inner_rel; rsolve|apply lf_ok|apply lf2_r|apply lf_ok|apply lf2_l]; apply plen_skip2.
Qed.

Lemma constraint_args_rel : forall f c c' acc, R c c' ->
  resrel XR (constraint_args f c acc) (constraint_args f c' acc).
Proof.
  induction f as [|f IH]; intros c c' acc H; [exact I|]. cbn [constraint_args].
  psims. apply IH. rsolve.
Qed.

Lemma constraint_rel f c c' : R c c' -> resrel XR (constraint f c) (constraint f c').
Proof. intros H. unfold constraint. psims. apply constraint_args_rel. rsolve. Qed.

Lemma constraints_inner_rel : forall f c c' ident lst m, R c c' ->
  resrel XR (constraints_inner f c ident lst m) (constraints_inner f c' ident lst m).
Proof.
  induction f as [|f IH]; intros c c' ident lst m H; [exact I|]. cbn [constraints_inner].
  rewrite (sat_constraint (local_fuel c) (lf2 c c') c), (sat_constraint (local_fuel c') (lf2 c c') c');
    try (unfold lf2, local_fuel; lia).
  apply (rbind_rel XR); [apply constraint_rel; exact H|]. xr_intro.
  psims. apply IH. rsolve.
Qed.

Lemma constraints_outer_rel : forall f c c' m, R c c' ->
  resrel XR (constraints_outer f c m) (constraints_outer f c' m).
Proof.
  induction f as [|f IH]; intros c c' m H; [exact I|]. cbn [constraints_outer]. unfold look2.
  cbv iota beta.
  psims.
  all: first [apply IH; assumption
             |rewrite (sat_constraints_inner (local_fuel c) (lf2 c c') (skip 1 (skip 1 c))),
                      (sat_constraints_inner (local_fuel c') (lf2 c c') (skip 1 (skip 1 c')));
              [apply constraints_inner_rel; rsolve
              |apply lf_ok; apply plen_skip2|apply lf2_r; apply plen_skip2|apply lf_ok; apply plen_skip2|apply lf2_l; apply plen_skip2]].
Qed.

Lemma path_loop_rel : forall f c c' acc, R c c' ->
  fst (path_loop f c acc) = fst (path_loop f c' acc) /\ R (snd (path_loop f c acc)) (snd (path_loop f c' acc)).
Proof.
  induction f as [|f IH]; intros c c' acc H; [split; [reflexivity|exact H]|]. cbn [path_loop].
  rewrite (R_token _ _ H). destruct (token c); try (split; [reflexivity|exact H]).
  cbv zeta. rewrite (R_is_k KSlash _ _ (R_skip 1 _ _ H)).
  destruct (is_k KSlash (skip 1 c)); apply IH; rsolve.
Qed.

Lemma path_rel c c' : R c c' -> resrel XR (path c) (path c').
Proof.
  intros H. unfold path. rewrite (R_token _ _ H).
  destruct (token c) as [| | | | | |k|]; try (apply resrel_raise; exact H).
  - rewrite (sat_path_loop (local_fuel c) (lf2 c c') c), (sat_path_loop (local_fuel c') (lf2 c c') c');
      try (unfold lf2, local_fuel; lia).
    apply path_loop_rel. exact H.
  - destruct k; try (apply resrel_raise; exact H).
    rewrite (sat_path_loop (local_fuel c) (lf2 c c') (skip 1 c)), (sat_path_loop (local_fuel c') (lf2 c c') (skip 1 c'));
      [|apply lf_ok; apply plen_skip|apply lf2_r; apply plen_skip|apply lf_ok; apply plen_skip|apply lf2_l; apply plen_skip].
    apply path_loop_rel. rsolve.
Qed.

Lemma use_path_rel c c' : R c c' -> resrel XR (use_path c) (use_path c').
Proof.
  intros H. unfold use_path. apply (rbind_rel XR); [apply path_rel; exact H|]. xr_intro. psims.
Qed.

Lemma from_imports_rel : forall f c c' acc, R c c' ->
  resrel XR (from_imports f c acc) (from_imports f c' acc).
Proof.
  induction f as [|f IH]; intros c c' acc H; [exact I|]. cbn [from_imports].
  psims.
  all: try (apply IH; rsolve).
Qed.

Lemma sep_vars_rel : forall f old c c', R c c' -> resrel XR (sep_vars f old c) (sep_vars f old c').
Proof.
  induction f as [|f IH]; intros old c c' H; [exact I|]. cbn [sep_vars].
  psims.
  all: try (apply IH; rsolve).
Qed.

Lemma push_len b c : length (post (fst (push_nl b c))) <= length (post c).
Proof. unfold push_nl. cbn [fst]. pose proof (plen_skip 0 (set_nl b c)). cbn [set_nl post] in *. exact H. Qed.

Lemma paren_vars_rel c c' : R c c' -> resrel XR (paren_vars c) (paren_vars c').
Proof.
  intros H. unfold paren_vars. psims.
  pose proof (push_len true (skip 1 c)) as L1. pose proof (push_len true (skip 1 c')) as L1'.
  pose proof (plen_skip 1 c) as L2. pose proof (plen_skip 1 c') as L2'.
  destruct (push_nl true (skip 1 c)) as [c2 o] eqn:E, (push_nl true (skip 1 c')) as [c2' o'] eqn:E'.
  destruct (R_push (skip 1 c) (skip 1 c') true c2 o c2' o' ltac:(rsolve) E E') as [HP ->].
  cbn [fst] in L1, L1'.
  rewrite (sat_sep_vars (local_fuel c) (lf2 c c') o c2), (sat_sep_vars (local_fuel c') (lf2 c c') o c2');
    try (unfold lf2, local_fuel; lia).
  apply sep_vars_rel. exact HP.
Qed.

Section Sim.
Variable T : ptab.
Hypothesis TOK : total_ok T.

Lemma call_E_rel q q' : qrel q q' -> prel XR (call_E q) (call_E q').
Proof. apply call_get_rel. apply get_E_rel. Qed.
Lemma call_A_rel q q' : qrel q q' -> prel XR (call_A q) (call_A q').
Proof. apply call_get_rel. apply get_A_rel. Qed.
Lemma call_Es_rel q q' : qrel q q' -> prel XR (call_Es q) (call_Es q').
Proof. apply call_get_rel. apply get_Es_rel. Qed.
Lemma call_Tup_rel q q' : qrel q q' -> prel XR (call_Tup q) (call_Tup q').
Proof. apply call_get_rel. apply get_Tup_rel. Qed.
Lemma call_Fs_rel q q' : qrel q q' -> prel XR (call_Fs q) (call_Fs q').
Proof. apply call_get_rel. apply get_Fs_rel. Qed.
Lemma call_Ifs_rel q q' : qrel q q' -> prel XR (call_Ifs q) (call_Ifs q').
Proof. apply call_get_rel. apply get_Ifs_rel. Qed.
Lemma call_Cases_rel q q' : qrel q q' -> prel XR (call_Cases q) (call_Cases q').
Proof. apply call_get_rel. apply get_Cases_rel. Qed.
Lemma call_Params_rel q q' : qrel q q' -> prel XR (call_Params q) (call_Params q').
Proof. apply call_get_rel. apply get_Params_rel. Qed.
Lemma call_T_rel q q' : qrel q q' -> prel XR (call_T q) (call_T q').
Proof. apply call_get_rel. apply get_T_rel. Qed.
Lemma call_Ts_rel q q' : qrel q q' -> prel XR (call_Ts q) (call_Ts q').
Proof. apply call_get_rel. apply get_Ts_rel. Qed.
Lemma call_FnTy_rel q q' : qrel q q' -> prel XR (call_FnTy q) (call_FnTy q').
Proof. apply call_get_rel. apply get_FnTy_rel. Qed.
Lemma call_TyTup_rel q q' : qrel q q' -> prel XR (call_TyTup q) (call_TyTup q').
Proof. apply call_get_rel. apply get_TyTup_rel. Qed.
Lemma call_Ss_rel q q' : qrel q q' -> prel XR (call_Ss q) (call_Ss q').
Proof. apply call_get_rel. apply get_Ss_rel. Qed.
Lemma call_S_rel q q' : qrel q q' -> prel XR (call_S q) (call_S q').
Proof. apply call_get_rel. apply get_S_rel. Qed.
Lemma call_NTs_rel q q' : qrel q q' -> prel XR (call_NTs q) (call_NTs q').
Proof. apply call_get_rel. apply get_NTs_rel. Qed.

Lemma expression_rel c c' : R c c' -> prel XR (expression T c) (expression T c').
Proof. intros H. apply call_E_rel. split; [reflexivity|exact H]. Qed.
Lemma parse_type_rel c c' : R c c' -> prel XR (parse_type c) (parse_type c').
Proof. intros H. apply call_T_rel. exact H. Qed.
Lemma statement_rel c c' : R c c' -> prel XR (statement c) (statement c').
Proof. intros H. apply call_S_rel. exact H. Qed.
Lemma block_rel c c' : R c c' -> prel XR (block c) (block c').
Proof. intros H. apply call_Ss_rel. cbn [qrel]. split; [reflexivity|split; [reflexivity|]]. apply R_skip_if. exact H. Qed.

(* one step of a simulation proof, by the shape of the goal *)
Ltac qsolve := cbn [qrel]; repeat (split; [reflexivity|]); rsolve.
Ltac sim1 :=
  lazymatch goal with
  | |- prel _ (ok _) (ok _) => apply prel_ok; first [rsolve | (unfold XR; cbn [fst snd]; split; [reflexivity|rsolve])
                                                    | (cbn [orel]; repeat (split; [reflexivity|]); rsolve)]
  | |- prel _ (praise _) (praise _) => apply prel_raise; rsolve
  | |- prel _ panic panic => apply prel_panic
  | |- prel _ (reraise _ _) (reraise _ _) => apply prel_reraise; assumption
  | |- prel _ (pexpect _ _) (pexpect _ _) => apply pexpect_rel; rsolve
  | |- prel _ (expression _ _) (expression _ _) => apply expression_rel; rsolve
  | |- prel _ (parse_type _) (parse_type _) => apply parse_type_rel; rsolve
  | |- prel _ (statement _) (statement _) => apply statement_rel; rsolve
  | |- prel _ (block _) (block _) => apply block_rel; rsolve
  | |- prel _ (call _) (call _) => apply call_rel; qsolve
  | |- prel _ (call_E _) (call_E _) => apply call_E_rel; qsolve
  | |- prel _ (call_A _) (call_A _) => apply call_A_rel; qsolve
  | |- prel _ (call_Es _) (call_Es _) => apply call_Es_rel; qsolve
  | |- prel _ (call_Tup _) (call_Tup _) => apply call_Tup_rel; qsolve
  | |- prel _ (call_Fs _) (call_Fs _) => apply call_Fs_rel; qsolve
  | |- prel _ (call_Ifs _) (call_Ifs _) => apply call_Ifs_rel; qsolve
  | |- prel _ (call_Cases _) (call_Cases _) => apply call_Cases_rel; qsolve
  | |- prel _ (call_Params _) (call_Params _) => apply call_Params_rel; qsolve
  | |- prel _ (call_Ts _) (call_Ts _) => apply call_Ts_rel; qsolve
  | |- prel _ (call_FnTy _) (call_FnTy _) => apply call_FnTy_rel; qsolve
  | |- prel _ (call_TyTup _) (call_TyTup _) => apply call_TyTup_rel; qsolve
  | |- prel _ (call_NTs _) (call_NTs _) => apply call_NTs_rel; qsolve
  | |- prel _ (Ret (type_assignable _)) (Ret (type_assignable _)) => apply prel_ret; apply ta_rel; rsolve
  | |- prel _ (Ret (use_path _)) (Ret (use_path _)) => apply prel_ret; apply use_path_rel; rsolve
  | |- prel _ (Ret (paren_vars _)) (Ret (paren_vars _)) => apply prel_ret; apply paren_vars_rel; rsolve
  | |- prel _ (ptry ?m _ reraise) (ptry _ _ reraise) =>
      lazymatch type of m with
      | prog ctx => apply (bind_rel R); [|let a := fresh "cx" in let a' := fresh "cx'" in let H := fresh "HR" in
                                          intros a a' H; cbv beta iota zeta]
      | _ => apply (bind_rel XR); [|xr_intro]
      end
  | |- prel _ (if ?b then _ else _) (if ?b' then _ else _) =>
      apply prel_if; [beq|intros _|intros _]
  | |- prel _ (match token ?x with _ => _ end) (match token ?y with _ => _ end) =>
      replace (token y) with (token x) by (symmetry; apply R_token; rsolve);
      let Tk := fresh "Tk" in destruct (token x) eqn:Tk
  | |- prel _ (match ?k with KNil => _ | _ => _ end) (match ?k with KNil => _ | _ => _ end) => destruct k
  | |- prel _ (let '(_, _) := push_nl _ _ in _) _ => dpush2
  end.
Ltac sims := repeat (cbv beta zeta; sim1).

Lemma step_args_rel pr acc c c' : R c c' -> prel orel (step_args T pr acc c) (step_args T pr acc c').
Proof.
  intros H. unfold step_args.
  assert (D : prel orel
    (ptry (expression T c) (fun '(e, c1) => call (QArgs pr (acc ++ [e]) (after_arg c1)))
          (fun c' es => if pr then ok (REs acc c) else reraise c' es))
    (ptry (expression T c') (fun '(e, c1) => call (QArgs pr (acc ++ [e]) (after_arg c1)))
          (fun c'0 es => if pr then ok (REs acc c') else reraise c'0 es))).
  { apply (ptry_rel XR); [sims|xr_intro; sims|].
    intros c1 es c1' es' HE. destruct pr; sims. }
  sims; exact D.
Qed.

Lemma step_tuple_rel i acc c c' : R c c' -> prel orel (step_tuple T i acc c) (step_tuple T i acc c').
Proof. intros H. unfold step_tuple. sims. Qed.

Lemma step_list_rel acc c c' : R c c' -> prel orel (step_list T acc c) (step_list T acc c').
Proof. intros H. unfold step_list. sims. Qed.

Lemma step_fields_rel acc c c' : R c c' -> prel orel (step_fields T acc c) (step_fields T acc c').
Proof. intros H. unfold step_fields. sims. Qed.

Lemma assignable_call_rel a c c' : R c c' -> prel orel (assignable_call c a) (assignable_call c' a).
Proof.
  intros H. unfold assignable_call. cbv zeta.
  rewrite (R_is_k KPrime _ _ H), (R_nl _ _ (R_skip 1 _ _ H)).
  destruct (is_k KPrime c); sims.
Qed.

Lemma assignable_index_rel a c c' : R c c' -> prel orel (assignable_index T c a) (assignable_index T c' a).
Proof. intros H. unfold assignable_index. sims. destruct e; sims. Qed.

Lemma assignable_variant_rel a c c' : R c c' -> prel orel (assignable_variant T c a) (assignable_variant T c' a).
Proof.
  intros H. unfold assignable_variant.
  destruct (match a with ARead n => Some n | AAccess _ n => Some n | _ => None end); sims.
  apply (ptry_rel XR); [sims|xr_intro; sims|]. intros. sims.
Qed.

Lemma assignable_dot_rel a c c' : R c c' -> prel orel (assignable_dot c a) (assignable_dot c' a).
Proof. intros H. unfold assignable_dot. sims. Qed.

Lemma step_sub_rel a c c' : R c c' -> prel orel (step_sub T a c) (step_sub T a c').
Proof.
  intros H. unfold step_sub. sims;
    first [apply assignable_call_rel; exact H | apply assignable_index_rel; exact H | idtac].
  apply (ptry_rel orel); [apply assignable_variant_rel; exact H|intros o o' Ho; apply prel_ok; exact Ho|].
  intros. apply assignable_dot_rel. exact H.
Qed.

Lemma value_rel c c' : R c c' -> prel orel (value c) (value c').
Proof. intros H. unfold value. sims. Qed.

Lemma unary_rel c c' : R c c' -> prel orel (unary T c) (unary T c').
Proof. intros H. unfold unary. rewrite (R_token _ _ H). sims. destruct (pt_unary T (token c)); sims. Qed.

Lemma grouping_rel c c' : R c c' -> prel orel (grouping_or_tuple c) (grouping_or_tuple c').
Proof.
  intros H. unfold grouping_or_tuple. cbv beta zeta. dpush2.
  rewrite (R_is_k KComma _ _ HP), (R_is_k KRightParen _ _ HP). sims.
  destruct l; sims.
Qed.

Lemma list_expr_rel c c' : R c c' -> prel orel (list_expr c) (list_expr c').
Proof. intros H. unfold list_expr. sims. Qed.

Lemma blob_rel c c' : R c c' -> prel orel (blob c) (blob c').
Proof. intros H. unfold blob. sims. Qed.

Lemma if_expression_rel c c' : R c c' -> prel orel (if_expression T c) (if_expression T c').
Proof. intros H. unfold if_expression. sims. Qed.

Lemma step_elifs_rel acc c c' : R c c' -> prel orel (step_elifs T acc c) (step_elifs T acc c').
Proof. intros H. unfold step_elifs. sims. Qed.

Lemma case_expression_rel c c' : R c c' -> prel orel (case_expression T c) (case_expression T c').
Proof. intros H. unfold case_expression. sims. Qed.

Lemma step_cases_rel acc c c' : R c c' -> prel orel (step_cases acc c) (step_cases acc c').
Proof. intros H. unfold step_cases. sims. Qed.

Lemma function_rel c c' : R c c' -> prel orel (function c) (function c').
Proof. intros H. unfold function. rewrite (R_is_k KPu _ _ H). sims. Qed.

Lemma step_params_rel acc c c' : R c c' -> prel orel (step_params acc c) (step_params acc c').
Proof.
  intros H. unfold step_params. sims.
  apply (ptry_rel XR); [sims|xr_intro; sims|]. intros. sims.
Qed.

Lemma assignable_p_rel c c' : R c c' -> prel XR (assignable_p c) (assignable_p c').
Proof. intros H. unfold assignable_p. sims. Qed.

Lemma prefix_rel c c' : R c c' -> prel orel (prefix T c) (prefix T c').
Proof.
  intros H. unfold prefix.
  assert (D : forall t, prel orel (match pt_unary T t with Some _ => unary T c | None => praise c end)
                                  (match pt_unary T t with Some _ => unary T c' | None => praise c' end)).
  { intros t. destruct (pt_unary T t); [apply unary_rel; exact H|sims]. }
  sims; first [apply D | apply value_rel; exact H | apply function_rel; exact H | apply if_expression_rel; exact H
              | apply case_expression_rel; exact H | apply grouping_rel; exact H | apply list_expr_rel; exact H | idtac].
  pose proof (ta_rel _ _ H) as TA.
  destruct (type_assignable c) as [[b0 c1]|ce es| |], (type_assignable c') as [[b0' c1']|ce' es'| |];
    try contradiction.
  - destruct TA as [_ TA]. cbn [snd] in TA. rewrite (R_is_k KLeftBrace _ _ TA).
    destruct (is_k KLeftBrace c1).
    + apply (ptry_rel orel); [apply blob_rel; exact H|intros o o' Ho; apply prel_ok; exact Ho|].
      intros cx es cx' es' [HR HL]. apply prel_ret. split; [rsolve|exact HL].
    + apply (bind_rel XR); [apply assignable_p_rel; exact H|xr_intro; sims].
  - apply (bind_rel XR); [apply assignable_p_rel; exact H|xr_intro; sims].
  - apply prel_ret. exact I.
  - apply prel_ret. exact I.
Qed.

Lemma step_prec_rel p c c' : R c c' -> prel orel (step_prec T p c) (step_prec T p c').
Proof.
  intros H. unfold step_prec. apply (bind_rel XR).
  - apply (bind_rel orel); [apply prefix_rel; exact H|]. apply get_E_rel.
  - xr_intro. sims.
Qed.

Lemma arrow_call_rel lhs c c' : R c c' -> prel orel (arrow_call T c lhs) (arrow_call T c' lhs).
Proof. intros H. unfold arrow_call. sims. destruct (prepend lhs e); sims. Qed.

Lemma infix_rel lhs c c' : R c c' -> realb (token c) = true -> prel orel (infix T c lhs) (infix T c' lhs).
Proof.
  intros H Re. unfold infix. cbv zeta. rewrite (R_token _ _ H).
  destruct (tok_is KArrow (token c)); [apply arrow_call_rel; exact H|].
  destruct (pt_postfix T (token c)); [sims|].
  destruct (pt_bin T (token c)); [sims|].
  assert (Re' : realb (token c') = true) by (rewrite (R_token _ _ H); exact Re).
  destruct (R_prev_ltm c c' (skip 1 c) (skip 1 c') H (skip1_ltm c Re) (skip1_ltm c' Re') (R_skip 1 _ _ H))
    as (cp & cp' & -> & -> & HP).
  sims.
Qed.

Lemma step_loop_rel p lhs c c' : R c c' -> prel orel (step_loop T p lhs c) (step_loop T p lhs c').
Proof.
  intros H. unfold step_loop. rewrite (R_token _ _ H).
  destruct ((p <=? pt_prec T (token c)) && pt_valid T (token c)) eqn:G; [|sims].
  apply andb_prop in G. destruct G as [_ V].
  assert (Re : realb (token c) = true) by (destruct TOK as (_ & _ & _ & Hv); apply Hv; exact V).
  apply (bind_rel XR).
  - apply (bind_rel orel); [apply infix_rel; assumption|]. apply get_E_rel.
  - xr_intro. sims.
Qed.

(* ---- types ---- *)

Lemma paren_types_rel c c' : R c c' -> prel XR (paren_types c) (paren_types c').
Proof. intros H. unfold paren_types. sims. Qed.

Lemma step_type_rel c c' : R c c' -> prel orel (step_type c) (step_type c').
Proof.
  intros H. unfold step_type. sims.
  all: try (apply paren_types_rel; assumption).
  all: try (rewrite (R_is_k KPu _ _ H)).
  all: try (rewrite (R_is_k KComma _ _ HP), (R_is_k KRightParen _ _ HP)).
  all: sims.
  all: try (destruct l; sims).
  all: try (apply prel_ret; rewrite (R_is_k KLess _ _ (R_skip 1 _ _ H));
            destruct (is_k KLess (skip 1 c)); [|psims];
            rewrite (sat_constraints_outer (local_fuel (skip 1 c)) (lf2 (skip 1 c) (skip 1 c')) (skip 1 (skip 1 c))),
                    (sat_constraints_outer (local_fuel (skip 1 c')) (lf2 (skip 1 c) (skip 1 c')) (skip 1 (skip 1 c')));
            [apply constraints_outer_rel; rsolve|apply lf_ok; apply plen_skip|apply lf2_r; apply plen_skip
            |apply lf_ok; apply plen_skip|apply lf2_l; apply plen_skip]).
Qed.

Lemma step_sep_types_rel old c c' : R c c' -> prel orel (step_sep_types old c) (step_sep_types old c').
Proof. intros H. unfold step_sep_types. sims. Qed.

Lemma step_fnty_params_rel acc c c' : R c c' -> prel orel (step_fnty_params acc c) (step_fnty_params acc c').
Proof.
  intros H. unfold step_fnty_params. sims.
  all: try (apply (ptry_rel XR); [sims|xr_intro; sims|intros; sims]).
Qed.

Lemma step_ty_tuple_rel i acc c c' : R c c' -> prel orel (step_ty_tuple i acc c) (step_ty_tuple i acc c').
Proof.
  intros H. unfold step_ty_tuple. sims.
  all: rewrite (R_is_k KComma _ _ HR); sims.
Qed.

(* ---- blocks, declarations, statements ---- *)

Lemma step_stmts_rel acc errs errs' c c' : length errs = length errs' -> R c c' ->
  prel orel (step_stmts acc errs c) (step_stmts acc errs' c').
Proof.
  intros HL H. unfold step_stmts.
  assert (Stop : prel orel (match errs with [] => ok (RSs acc (skip_if KEnd c)) | _ => Ret (Err c errs) end)
                           (match errs' with [] => ok (RSs acc (skip_if KEnd c')) | _ => Ret (Err c' errs') end)).
  { destruct errs, errs'; try discriminate HL; [sims|]. apply prel_ret. split; [exact H|exact HL]. }
  assert (D : prel orel
     (ptry (statement c) (fun '(s, c1) => call (QStmts (acc ++ [s]) errs c1))
        (fun c' es => call (QStmts acc (errs ++ es) (skip_if KNewline (skip_until KNewline (pop_nl false c'))))))
     (ptry (statement c') (fun '(s, c1) => call (QStmts (acc ++ [s]) errs' c1))
        (fun c' es => call (QStmts acc (errs' ++ es) (skip_if KNewline (skip_until KNewline (pop_nl false c'))))))).
  { apply (ptry_rel XR); [sims|xr_intro|].
    - apply call_rel. cbn [qrel]. split; [reflexivity|split; [exact HL|exact HR]].
    - intros c1 es c1' es' [HR HE]. apply call_rel. cbn [qrel]. split; [reflexivity|split; [|rsolve]].
      rewrite !app_length, HL, HE. reflexivity. }
  sims; first [exact D|exact Stop].
Qed.

Definition EIR (x x' : name * ty * nat * ctx) : Prop :=
  fst (fst x) = fst (fst x') /\ R (snd x) (snd x').

Lemma enum_item_rel c c' : R c c' -> prel EIR (enum_item c) (enum_item c').
Proof.
  intros H. unfold enum_item. cbv zeta.
  assert (H0 : R (skip_nls c) (skip_nls c')) by rsolve.
  replace (token (skip_nls c')) with (token (skip_nls c)) by (symmetry; apply R_token; exact H0).
  destruct (token (skip_nls c)) as [v| | | | | | |]; try (apply prel_raise; exact H0).
  sims.
  apply prel_ok. unfold EIR. cbn [fst snd]. split; [reflexivity|rsolve].
Qed.

Lemma unpos_app l x : unpos (l ++ [x]) = unpos l ++ [fst x].
Proof. unfold unpos. rewrite map_app. reflexivity. Qed.

Lemma step_enum_items_rel acc acc' c c' : unpos acc = unpos acc' -> R c c' ->
  prel orel (step_enum_items acc c) (step_enum_items acc' c').
Proof.
  intros HA H. unfold step_enum_items. cbv zeta.
  rewrite (R_is_k KEnd _ _ (R_skip_nls _ _ H)).
  destruct (is_k KEnd (skip_nls c)).
  { apply prel_ok. cbn [orel]. split; [exact HA|rsolve]. }
  apply (bind_rel EIR); [apply enum_item_rel; exact H|].
  intros [[[v t0] pos] c1] [[[v' t0'] pos'] c1'] [HE HR]. cbn [fst snd] in HE, HR. injection HE as -> ->.
  rewrite (R_is_k KEnd _ _ (R_skip_nls _ _ HR)).
  assert (HA' : unpos (acc ++ [(v', t0', pos)]) = unpos (acc' ++ [(v', t0', pos')]))
    by (rewrite !unpos_app, HA; reflexivity).
  destruct (is_k KEnd (skip_nls c1)).
  - apply prel_ok. cbn [orel]. split; [exact HA'|rsolve].
  - apply call_rel. cbn [qrel]. split; [exact HA'|rsolve].
Qed.

Lemma step_blob_fields_rel acc c c' : R c c' -> prel orel (step_blob_fields acc c) (step_blob_fields acc c').
Proof. intros H. unfold step_blob_fields. sims. Qed.

Lemma first_dup_unpos : forall l l' seen, unpos l = unpos l' ->
  match first_dup seen l, first_dup seen l' with
  | Some _, Some _ => True
  | None, None => True
  | _, _ => False
  end.
Proof.
  induction l as [|[[v t0] pos] l IH]; intros [|[[v' t0'] pos'] l'] seen HU; try discriminate HU; [exact I|].
  cbn [unpos map fst] in HU. injection HU as -> -> HU. cbn [first_dup].
  destruct (existsb (name_eqb v') seen); [exact I|]. apply IH. exact HU.
Qed.

Lemma unpos_map l : map (fun x : name * ty * nat => (fst (fst x), snd (fst x))) l = unpos l.
Proof. unfold unpos. apply map_ext. intros [[a b] n]. reflexivity. Qed.

Definition EnR (x x' : list (name * ty * nat) * ctx) : Prop := unpos (fst x) = unpos (fst x') /\ R (snd x) (snd x').

Lemma get_Enum_rel o o' : orel o o' -> prel EnR (get_Enum o) (get_Enum o').
Proof.
  intros Ho. destruct o, o'; cbn [orel] in Ho; try contradiction; try apply prel_panic.
  apply prel_ok. exact Ho.
Qed.

Lemma stmt_enum_rel nm c c' : R c c' -> prel XR (stmt_enum nm c) (stmt_enum nm c').
Proof.
  intros H. unfold stmt_enum. destruct (negb (is_capitalized nm)); [sims|]. cbv zeta. dpush2.
  apply (bind_rel XR); [sims|]. xr_intro.
  apply (bind_rel EnR).
  - unfold call_Enum. apply call_get_rel; [apply get_Enum_rel|]. cbn [qrel]. split; [reflexivity|exact HR].
  - intros [items c4] [items' c4'] [HU HR4]. cbn [fst snd] in HU, HR4.
    pose proof (first_dup_unpos items items' [] HU) as FD.
    destruct (first_dup [] items), (first_dup [] items'); try contradiction.
    + apply prel_ret. split; [exact HR4|reflexivity].
    + apply prel_ok. unfold XR. cbn [fst snd]. rewrite !unpos_map, HU. split; [reflexivity|rsolve].
Qed.

Lemma stmt_blob_rel nm c c' : R c c' -> prel XR (stmt_blob nm c) (stmt_blob nm c').
Proof. intros H. unfold stmt_blob. cbv zeta. rewrite (R_is_k KExternBlob _ _ (R_skip 2 _ _ H)). sims. Qed.

Lemma stmt_def_implied_rel nm c c' : R c c' -> prel XR (stmt_def_implied T nm c) (stmt_def_implied T nm c').
Proof.
  intros H. unfold stmt_def_implied. sims.
  all: rewrite (R_is_k KColonColon _ _ (R_skip 1 _ _ H)); sims.
Qed.

Lemma stmt_def_typed_rel nm c c' : R c c' -> prel XR (stmt_def_typed T nm c) (stmt_def_typed T nm c').
Proof.
  intros H. unfold stmt_def_typed. sims.
  apply (bind_rel eq).
  - sims; apply prel_ok; reflexivity.
  - intros k k' <-. sims.
Qed.

Lemma stmt_expr_rel c c' : R c c' -> prel XR (stmt_expr T c) (stmt_expr T c').
Proof. intros H. unfold stmt_expr. sims. Qed.

Lemma stmt_assign_or_expr_rel c c' : R c c' -> prel XR (stmt_assign_or_expr T c) (stmt_assign_or_expr T c').
Proof.
  intros H. unfold stmt_assign_or_expr.
  pose proof (ta_rel _ _ H) as TA.
  apply (ptry_rel XR); [apply assignable_p_rel; exact H| |].
  - xr_intro. rewrite (R_token _ _ HR).
    match goal with |- context [assign_op ?t] => destruct (assign_op t) end; [sims|].
    destruct (type_assignable c) as [[b0 cb]|ce es| |], (type_assignable c') as [[b0' cb']|ce' es'| |];
      try contradiction; try (apply prel_ret; exact I).
    + destruct TA as [_ TA]. cbn [snd] in TA. rewrite (R_is_k KLeftBrace _ _ TA).
      destruct (is_k KLeftBrace cb); [apply stmt_expr_rel; exact H|unfold expression_after; sims].
    + unfold expression_after. sims.
  - intros cx es cx' es' HE. rewrite (R_token _ _ H).
    destruct (token c); try (apply stmt_expr_rel; exact H).
    destruct (type_assignable c) as [[b0 cb]|ce es0| |], (type_assignable c') as [[b0' cb']|ce' es0'| |];
      try contradiction; try (apply prel_ret; exact I).
    + destruct TA as [_ TA]. cbn [snd] in TA. rewrite (R_is_k KLeftBrace _ _ TA).
      destruct (is_k KLeftBrace cb); [apply stmt_expr_rel; exact H|apply prel_reraise; exact HE].
    + apply prel_reraise. exact HE.
Qed.

Lemma stmt_from_rel c c' : R c c' -> prel XR (stmt_from c) (stmt_from c').
Proof.
  intros H. unfold stmt_from. sims. cbv zeta.
  rewrite (R_is_k KLeftParen _ _ HR0).
  destruct (is_k KLeftParen cx).
  - dpush2. apply (bind_rel XR).
    + apply prel_ret.
      rewrite (sat_from_imports (local_fuel cp) (lf2 cp cp') cp), (sat_from_imports (local_fuel cp') (lf2 cp cp') cp');
        try (unfold lf2, local_fuel; lia).
      apply from_imports_rel. exact HP.
    + xr_intro. destruct l; sims.
  - dpush2. apply (bind_rel XR).
    + apply prel_ret.
      rewrite (sat_from_imports (local_fuel cp) (lf2 cp cp') cp), (sat_from_imports (local_fuel cp') (lf2 cp cp') cp');
        try (unfold lf2, local_fuel; lia).
      apply from_imports_rel. exact HP.
    + xr_intro. destruct l; sims.
Qed.

Lemma stmt_use_rel c c' : R c c' -> realb (token c) = true -> prel XR (stmt_use c) (stmt_use c').
Proof.
  intros H Re. unfold stmt_use.
  assert (Re' : realb (token c') = true) by (rewrite (R_token _ _ H); exact Re).
  pose proof (use_path_rel _ _ (R_skip 1 _ _ H)) as UR.
  pose proof (use_path_good (skip 1 c)) as G. pose proof (use_path_good (skip 1 c')) as G'.
  destruct (use_path (skip 1 c)) as [[[p file] c1]|ce es| |], (use_path (skip 1 c')) as [[[p' file'] c1']|ce' es'| |];
    try contradiction; cbn [ptry]; try (apply prel_ret; exact UR).
  destruct UR as [UE UR]. cbn [fst snd] in UE, UR. injection UE as -> ->.
  cbn [good snd] in G, G'. apply ltl_ltm in G. apply ltl_ltm in G'.
  unfold look2. cbv iota beta.
  rewrite (use_prev_twice p' c c1 Re G), (use_prev_twice p' c' c1' Re' G').
  sims.
Qed.

Lemma loop_arm_rel c c' : R c c' ->
  prel XR
    (let c1 := skip 1 c in
     let* '(cond, c2) := (if is_k KDo c1 then ok (EBool true, c1) else expression T c1) in
     let* '(body, c3) := statement c2 in
     match prev c3 with
     | Some cp => ok (SLoop cond body, if is_k KNewline cp then cp else c3)
     | None => panic
     end)
    (let c1 := skip 1 c' in
     let* '(cond, c2) := (if is_k KDo c1 then ok (EBool true, c1) else expression T c1) in
     let* '(body, c3) := statement c2 in
     match prev c3 with
     | Some cp => ok (SLoop cond body, if is_k KNewline cp then cp else c3)
     | None => panic
     end).
Proof.
  intros H. cbv zeta. apply (bind_rel XR); [sims|]. xr_intro.
  unfold statement, call_S. cbn [ptry]. constructor; [exact HR| |].
  - intros o o' Ho U U'. destruct o, o'; cbn [orel] in Ho; try contradiction; cbn [get_S ptry];
      try (apply prel_ret; exact I).
    destruct Ho as [-> HR3]. cbn [UPost] in U, U'. cbn [ok ptry].
    destruct (R_prev_ltm _ _ _ _ HR U U' HR3) as (cq & cq' & -> & -> & HQ).
    apply prel_ok. split; [reflexivity|]. cbn [snd]. rewrite (R_is_k KNewline _ _ HQ).
    destruct (is_k KNewline cq); assumption.
  - intros cx es cx' es' HE. cbn [reraise ptry]. apply prel_ret. exact HE.
Qed.

Lemma step_stmt_rel c0 c0' : R c0 c0' -> prel orel (step_stmt T c0) (step_stmt T c0').
Proof.
  intros H. unfold step_stmt. dpush2.
  apply (bind_rel XR).
  - unfold look3. cbv iota beta.
    replace (token cp') with (token cp) by (symmetry; apply R_token; rsolve).
    replace (token (skip 1 cp')) with (token (skip 1 cp)) by (symmetry; apply R_token; rsolve).
    replace (token (skip 1 (skip 1 cp'))) with (token (skip 1 (skip 1 cp))) by (symmetry; apply R_token; rsolve).
    assert (HD : prel XR (stmt_assign_or_expr T cp) (stmt_assign_or_expr T cp'))
      by (apply stmt_assign_or_expr_rel; exact HP).
    destruct (token cp) as [nm| | | | | |k|] eqn:Tk; try exact HD.
    + destruct (token (skip 1 cp)) as [| | | | | |k2|]; try exact HD.
      destruct k2; first [exact HD|apply stmt_def_typed_rel; exact HP|idtac].
      all: destruct (token (skip 1 (skip 1 cp))) as [| | | | | |k3|];
        first [exact HD|apply stmt_def_implied_rel; exact HP|idtac].
      all: destruct k3; first [exact HD|apply stmt_def_implied_rel; exact HP|apply stmt_enum_rel; exact HP
                              |apply stmt_blob_rel; exact HP].
    + assert (Re : realb (token cp) = true) by (rewrite Tk; reflexivity).
      destruct k;
        first [exact HD
              |apply stmt_use_rel; assumption
              |apply stmt_from_rel; assumption
              |apply (loop_arm_rel cp cp' HP)
              |solve [sims]
              |(cbv zeta; apply (ptry_rel XR); [sims|xr_intro; sims|intros; sims])].
  - xr_intro. sims.
Qed.

Theorem step_rel q q' : qrel q q' -> prel orel (step T q) (step T q').
Proof.
  intros H. destruct q, q'; cbn [qrel] in H; try contradiction; cbn [step].
  - destruct H as [-> H]. apply step_prec_rel. exact H.
  - destruct H as (-> & -> & H). apply step_loop_rel. exact H.
  - destruct H as [-> H]. apply step_sub_rel. exact H.
  - destruct H as (-> & -> & H). apply step_args_rel. exact H.
  - destruct H as (-> & -> & H). apply step_tuple_rel. exact H.
  - destruct H as [-> H]. apply step_list_rel. exact H.
  - destruct H as [-> H]. apply step_fields_rel. exact H.
  - destruct H as [-> H]. apply step_elifs_rel. exact H.
  - destruct H as [-> H]. apply step_cases_rel. exact H.
  - destruct H as [-> H]. apply step_params_rel. exact H.
  - apply step_type_rel. exact H.
  - destruct H as [-> H]. apply step_sep_types_rel. exact H.
  - destruct H as [-> H]. apply step_fnty_params_rel. exact H.
  - destruct H as (-> & -> & H). apply step_ty_tuple_rel. exact H.
  - destruct H as (-> & HL & H). apply step_stmts_rel; assumption.
  - apply step_stmt_rel. exact H.
  - destruct H as [HA H]. apply step_enum_items_rel; assumption.
  - destruct H as [-> H]. apply step_blob_fields_rel. exact H.
Qed.

(* what ParserTotal knows about every successful statement, at any fuel *)
Lemma go_upost f q o : go T f q = Ok o -> UPost q o.
Proof.
  intros H. destruct q; try exact I. destruct o; try exact I. cbn [UPost].
  set (F := Nat.max f (S (mu (QStmt c)))).
  pose proof (go_ok_le T f F _ _ (Nat.le_max_l _ _) H) as HF.
  pose proof (go_good T TOK F (QStmt c) I ltac:(unfold F; lia)) as G.
  rewrite HF in G. exact G.
Qed.

Theorem go_rel f : forall q q', qrel q q' -> resrel orel (go T f q) (go T f q').
Proof.
  induction f as [|f IH]; intros q q' H; [exact I|].
  rewrite !go_S. apply (run_rel orel); [exact IH|apply go_upost|apply go_upost|apply step_rel; exact H].
Qed.


(* ---- the module loop: related inputs give the same top-level statements up to empty statements ---- *)

Definition is_empty_stmt (s : stmt) : bool := match s with SEmpty => true | _ => false end.
Definition noempty (ss : list stmt) : list stmt := filter (fun s => negb (is_empty_stmt s)) ss.

Lemma noempty_app a b : noempty (a ++ b) = noempty a ++ noempty b.
Proof. apply filter_app. Qed.

Definition mrel (r r' : res out) : Prop :=
  match r, r' with
  | Ok (RSs ss _), Ok (RSs ss' _) => noempty ss = noempty ss'
  | Ok _, Ok _ => False
  | Err _ _, Err _ _ => True
  | Fuel, Fuel => True
  | Panic, Panic => True
  | _, _ => False
  end.

Lemma run_outer (rec : req -> res out) c :
  run rec (outer_statement c) =
  match rec (QStmt c) with
  | Ok (RS s c1) => if is_outer s then Ok (s, c1) else Err (skip 1 c1) [consumed (fst (push_nl false c))]
  | Ok _ => Panic
  | Err ce es => Err ce es
  | Fuel => Fuel
  | Panic => Panic
  end.
Proof.
  unfold outer_statement, statement, call_S. cbn [ptry run].
  destruct (rec (QStmt c)) as [o|ce es| |]; try reflexivity.
  destruct o; try reflexivity. cbn [get_S ok ptry run]. destruct (is_outer s); reflexivity.
Qed.

(* the branch of the module loop that parses an outer statement, given related statement results and related
   continuations (the contexts themselves need not be related: a file may start with comments) *)
Lemma module_D f acc acc' errs errs' last last' c c' :
  (forall acc acc' errs errs' last last' c c',
     noempty acc = noempty acc' -> length errs = length errs' -> R c c' ->
     mrel (go T f (QModule acc errs last c)) (go T f (QModule acc' errs' last' c'))) ->
  noempty acc = noempty acc' -> length errs = length errs' ->
  resrel orel (go T f (QStmt c)) (go T f (QStmt c')) ->
  mrel
    (run (go T f) (ptry (outer_statement c) (fun '(s, c1) => call (QModule (acc ++ [s]) errs (consumed c1) c1))
                     (fun c' es => call (QModule acc (errs ++ es) last (skip_until KNewline c')))))
    (run (go T f) (ptry (outer_statement c') (fun '(s, c1) => call (QModule (acc' ++ [s]) errs' (consumed c1) c1))
                     (fun c' es => call (QModule acc' (errs' ++ es) last' (skip_until KNewline c'))))).
Proof.
  intros IH HA HL G. rewrite !run_ptry, !run_outer.
  destruct (go T f (QStmt c)) as [o|ce es| |], (go T f (QStmt c')) as [o'|ce' es'| |]; try contradiction; try exact I.
  - destruct o, o'; cbn [resrel orel] in G; try contradiction; try exact I.
    destruct G as [<- R1]. destruct (is_outer s).
    + rewrite !run_call. apply IH; [rewrite !noempty_app, HA; reflexivity|exact HL|exact R1].
    + rewrite !run_call. apply IH; [exact HA|rewrite !app_length, HL; reflexivity|].
      apply R_skip_until. apply R_skip. exact R1.
  - destruct G as [R1 HE]. rewrite !run_call.
    apply IH; [exact HA|rewrite !app_length, HL, HE; reflexivity|apply R_skip_until; exact R1].
Qed.

Theorem module_rel : forall f acc acc' errs errs' last last' c c',
  noempty acc = noempty acc' -> length errs = length errs' -> R c c' ->
  mrel (go T f (QModule acc errs last c)) (go T f (QModule acc' errs' last' c')).
Proof.
  induction f as [|f IH]; intros acc acc' errs errs' last last' c c' HA HL H; [exact I|].
  rewrite !go_S. cbn [step]. unfold step_module. rewrite (R_token _ _ H).
  pose proof (module_D f acc acc' errs errs' last last' c c' IH HA HL (go_rel f (QStmt c) (QStmt c') H)) as D.
  destruct (token c) as [| | | | | |k|]; try exact D.
  - destruct k; try exact D. rewrite !run_call. apply IH; [exact HA|exact HL|apply R_skip; exact H].
  - destruct errs, errs'; try discriminate HL; cbn [run ok mrel]; [|exact I].
    destruct (comment_in _ c), (comment_in _ c'); rewrite ?noempty_app; cbn [noempty filter is_empty_stmt negb];
      rewrite ?app_nil_r; exact HA.
Qed.

Lemma mrel_trans a b c : mrel a b -> mrel b c -> mrel a c.
Proof.
  unfold mrel. intros H1 H2.
  destruct a as [oa| | |], b as [ob| | |]; try contradiction; try (destruct oa; contradiction);
    try (destruct c; try contradiction; exact I).
  destruct oa; try contradiction; destruct ob; try contradiction.
  destruct c as [oc| | |]; try contradiction. destruct oc; try contradiction.
  rewrite H1. exact H2.
Qed.

Lemma mrel_sym a b : mrel a b -> mrel b a.
Proof.
  unfold mrel. intros H. destruct a as [oa| | |], b as [ob| | |]; try contradiction; try exact I;
    try (destruct oa; contradiction).
  destruct oa; try contradiction; destruct ob; try contradiction. symmetry. exact H.
Qed.

End Sim.
End Gen.
