(* C15 -- Diagnostics name the file and line of the offending construct.
   Only pinned statements, `exact`, `vm_compute` for the table side condition and examples, and
   Print Assumptions.  The per-kind statements for the resolver and the type checker are stated, not
   proved: they are covered by the planting oracle (tools/props/c15.py). *)
From Coq Require Import String List NArith Bool Permutation.
From Sylt Require Import Lex.Regex Lex.Logos Lex.LexerProofs Gen.GenTokens
                         Diag.Conflict Diag.FileIds Diag.SyntaxErr Diag.DiagProofs Diag.DocDiag Gen.GenDiag.
Import ListNotations.

(* Obligation 1 (table tie, drift detector): the code that decides file and line of a diagnostic
   (Span::zero, Context::peek/span/token/skip, syntax_error!/raise_syntax_error!/expect!,
   push_skip_newlines, the head of `statement`, find_conflict_markers, tree, outer_statement,
   extract_namespaces, error!/resolution_error!/type_error!, span_file, the import-collision arm) as re-read from /repo on this run is the reviewed text. *)
Theorem C15_diag_table : items_eqb GenDiag.diag_items doc_diag_items = true.
Proof. vm_compute. reflexivity. Qed.

(* The line a token carries is 1 + the number of newline characters before it, for every input
   (multi-byte characters, comments, string literals that span lines), over the token table
   regenerated from token.rs on this run. *)
Theorem C15_lex_line : forall (s : list N) (tk : ptoken),
  In tk (lex gen_table s) ->
  line_start (t_span tk) = (1 + N.of_nat (count_nl (firstn (N.to_nat (t_cp0 tk)) s)))%N.
Proof. exact (lex_line gen_table). Qed.

(* find_conflict_markers: a line number is reported iff the position after that many newlines is the
   beginning of a line (start of the text or directly after a \n; a \r\n ending is a \n ending) and the
   text there starts with <<<<<<<. *)
Theorem C15_conflict_marker_line : forall s l,
  In l (conflict_lines s) <->
  exists pre rest, s = pre ++ marker ++ rest /\ at_line_start pre /\ l = 1 + count_nl pre.
Proof. exact conflict_marker_line. Qed.

(* ... and that number is the line the lexer gives a token at the same position *)
Theorem C15_conflict_marker_line_is_lexer_line : forall s l pre rest,
  s = pre ++ marker ++ rest -> at_line_start pre -> l = 1 + count_nl pre ->
  In l (conflict_lines s) /\ N.of_nat l = line_of pre.
Proof. exact conflict_marker_line_is_lexer_line. Qed.

(* File attribution: for every import graph (cycles, diamonds, unreadable files, files with syntax
   errors), with or without the bundled std, every amount of fuel that lets the work list finish and every
   order in which the reversed map is filled, an id is mapped back to the file that was tokenised with it. *)
Theorem C15_file_attr : forall fuel read bundle_std main s,
  tree_state fuel read bundle_std main = Some s ->
  forall mods', Permutation (modules s) mods' ->
  forall f id, In (f, id) mods' -> namespace_to_file mods' id = Some f.
Proof. exact file_attr. Qed.

(* The std statements appended to every user module carry `basics_index`; when tree() succeeds that
   position is the preamble's own file id. *)
Theorem C15_position_is_file_id : forall fuel read bundle_std main s,
  tree_state fuel read bundle_std main = Some s ->
  List.length (modules s) = List.length (visited s) ->
  forall i f id, nth_error (modules s) i = Some (f, id) -> id = i.
Proof. exact position_is_file_id. Qed.

(* Syntax errors: the error raised through syntax_error!/raise_syntax_error!/expect! carries the file of
   the context and the span of the token the parser is looking at ... *)
Theorem C15_syntax_error_at_current_token : forall c msg,
  se_span (syntax_error c msg) = cspan c /\ se_file (syntax_error c msg) = c_file c.
Proof. exact syntax_error_at_current_token. Qed.

Theorem C15_expect_error_at_current_token : forall c pat msg c' errs,
  expect c pat msg = PErr c' errs ->
  pat (token c) = false /\ exists e, errs = [e] /\ se_span e = cspan c /\ se_file e = c_file c.
Proof. exact expect_error_at_current_token. Qed.

(* ... whose line is the lexer's line of a token of that file -- the token the parser is looking at, or,
   at the end of the input, the LAST token of the file (never line 0 in a file that has a token):
   1 + the number of newline characters before it, for every source. *)
Theorem C15_syntax_error_line : forall file_id s c msg,
  ctx_of (lexed gen_table file_id s) c -> lexed gen_table file_id s <> [] ->
  exists tk, In tk (lex gen_table s) /\
    fs_file_id (se_span (syntax_error c msg)) = file_id /\
    line_start (fs_span (se_span (syntax_error c msg)))
      = (1 + N.of_nat (count_nl (firstn (N.to_nat (t_cp0 tk)) s)))%N /\
    se_file (syntax_error c msg) = c_file c /\
    (c_ahead c = [] -> exists pre, lex gen_table s = pre ++ [tk]).
Proof. exact (syntax_error_line gen_table). Qed.

Theorem C15_skip_keeps_ctx : forall n c all, ctx_of all c -> ctx_of all (skip n c).
Proof. exact skip_keeps_ctx. Qed.

(* At the end of the input the error carries the span of the last token (missing `end`, a bracket left
   open in the last statement, a truncated file); Span::zero only for a file without tokens. *)
Theorem C15_eof_span_is_last_token : forall c all t s,
  c_ahead c = [] -> c_last c = last_span (all ++ [(t, s)]) ->
  token c = "EOF"%string /\ cspan c = s.
Proof. exact eof_span_is_last_token. Qed.

Theorem C15_empty_file_span_is_zero : forall c, c_ahead c = [] -> c_last c = None ->
  cspan c = zero_span (c_file_id c) /\ line_start (fs_span (cspan c)) = 0%N.
Proof. exact empty_file_span_is_zero. Qed.

(* `Not a valid outer statement` is reported AT the statement: the error carries the span of the
   statement's first token and the file of the context, and that line is the lexer's line of a token. *)
Theorem C15_not_outer_error_is_at_the_statement : forall at_stmt after c' errs,
  outer_statement_check at_stmt after false = PErr c' errs ->
  exists e, errs = [e] /\ se_span e = statement_span at_stmt /\ se_file e = c_file after /\ c' = skip 1 after.
Proof. exact not_outer_error_is_at_the_statement. Qed.

Theorem C15_not_outer_error_line : forall file_id s at_stmt after c' errs,
  ctx_of (lexed gen_table file_id s) at_stmt -> lexed gen_table file_id s <> [] ->
  outer_statement_check at_stmt after false = PErr c' errs ->
  exists e tk, errs = [e] /\ In tk (lex gen_table s) /\
    se_span e = cspan (push_skip_newlines false at_stmt) /\
    line_start (fs_span (se_span e)) = (1 + N.of_nat (count_nl (firstn (N.to_nat (t_cp0 tk)) s)))%N.
Proof. exact (not_outer_error_line gen_table). Qed.

(* Stated, covered by the oracle: per error kind of the resolver / type checker, the first returned error
   carries the planted file and line. *)
Definition C15_first_error_at_planted_position_statement := first_error_at_planted_position_statement.

(* Non-vacuity.  "a\r\n<<<<<<< x\n<<<<<<<" has markers on lines 2 and 3; a cyclic import graph with a
   missing file and the bundled preamble. *)
Example C15_example_conflict :
  conflict_lines [97; 13; 10; 60; 60; 60; 60; 60; 60; 60; 32; 120; 10; 60; 60; 60; 60; 60; 60; 60]%N = [2; 3].
Proof. vm_compute. reflexivity. Qed.

(* "a :: (1" + newline: at the end of the input the parser's span is that of the last token, line 1. *)
Example C15_example_eof :
  let c := initial_context gen_table "main.sy"%string 0 [97; 32; 58; 58; 32; 40; 49; 10]%N in
  line_start (fs_span (cspan (skip 6 c))) = 1%N /\ c_ahead (skip 6 c) = [].
Proof. vm_compute. split; reflexivity. Qed.

Local Open Scope string_scope.
Example C15_example_ids :
  let read f := if String.eqb f "main" then Parsed true ["a"; "b"]
                else if String.eqb f "a" then Parsed true ["b"; "main"; "gone"]
                else if String.eqb f "b" then Parsed false ["a"]
                else if String.eqb f "lib:preamble" then Parsed true []
                else Unreadable in
  option_map modules (tree_state 20 read true "main")
  = Some [("main", 0); ("a", 2); ("lib:preamble", 4)].
Proof. vm_compute. reflexivity. Qed.

Print Assumptions C15_diag_table.
Print Assumptions C15_lex_line.
Print Assumptions C15_conflict_marker_line.
Print Assumptions C15_conflict_marker_line_is_lexer_line.
Print Assumptions C15_file_attr.
Print Assumptions C15_position_is_file_id.
Print Assumptions C15_syntax_error_at_current_token.
Print Assumptions C15_expect_error_at_current_token.
Print Assumptions C15_syntax_error_line.
Print Assumptions C15_skip_keeps_ctx.
Print Assumptions C15_eof_span_is_last_token.
Print Assumptions C15_empty_file_span_is_zero.
Print Assumptions C15_not_outer_error_is_at_the_statement.
Print Assumptions C15_not_outer_error_line.

(* ---------------------------------------------------------------------------------------------- *)
(* Resolver errors (name resolution, namespaces, imports): location theorems over the resolver model
   Resolve/Resolver.v, which is tied on every run to the real resolver's first error (message class,
   file, line, columns) by the C09 check.  `gen_rflags` are the flags regenerated from
   name_resolution.rs; the theorems hold for any flags. *)
From Sylt Require Syntax.Resolved Resolve.PAst Resolve.Resolver Resolve.ErrorSites Resolve.ErrorProofs
     Resolve.RefineRefuted Gen.GenResolve.

Import Syntax.Resolved Resolve.PAst Resolve.Resolver Resolve.ErrorSites Resolve.ErrorProofs Gen.GenResolve.
Import ListNotations.
Local Open Scope list_scope.

(* resolve_errors_located.  Every error the resolver returns is one of the pairs (kind, span) that
   `err_sites ast` lists for the constructs the user wrote -- identifier span for an unresolved name or a
   namespace used as a value, the whole access for `a.x`, the component for a bad type path, the STATEMENT
   for the re-lookup of a defined name, the LATER statement for a duplicate definition, the name of a `use`
   for a missing namespace, the imported / aliased identifier of a `from .. use` (see Resolve/ErrorSites.v)
   -- so its file id and line are those of that construct; the only exception is "no start function",
   reported at Span::zero(0) of the main file. *)
Theorem C15_resolve_errors_located : forall ast es,
  resolve gen_rflags ast = Err es ->
  Forall (fun e => In (e_kind e, e_span e) (err_sites ast) \/ (e_kind e = ENoStart /\ e_span e = span_zero 0)) es.
Proof. exact (resolve_errors_located gen_rflags). Qed.

Theorem C15_resolve_error_spans : forall ast es,
  resolve gen_rflags ast = Err es ->
  Forall (fun e => In (e_span e) (spans_of ast) \/ (e_kind e = ENoStart /\ e_span e = span_zero 0)) es.
Proof. exact (resolve_error_spans gen_rflags). Qed.

(* first_error_is_first.  A statement list (the body of `block`, and the top level) fails with the error
   of its first erroneous statement, the statements before it having been resolved in order; conversely
   the reported error is that of some statement all of whose predecessors resolved.  (The code goes on
   and appends the errors of later statements; the model keeps the first element, which is what every
   comparison with the code looks at.) *)
Theorem C15_first_error_is_first : forall (rs : pstmt -> M (option stmt)) l1 s l2 st o1 st1 es,
  block_with rs l1 st = Ok (o1, st1) -> rs s st1 = Err es -> block_with rs (l1 ++ s :: l2) st = Err es.
Proof. exact block_first_error. Qed.

Theorem C15_reported_error_is_first : forall (rs : pstmt -> M (option stmt)) l st es,
  block_with rs l st = Err es ->
  exists l1 s l2 o1 st1, l = l1 ++ s :: l2 /\ block_with rs l1 st = Ok (o1, st1) /\ rs s st1 = Err es.
Proof. exact block_error_is_first. Qed.

(* Non-vacuity: `start :: fn do if true do y := 5 end  y end` with restored scopes is rejected with
   NothingMatched at the identifier y (line 5), one of the listed sites; a program without start gets the
   NoStart error at Span::zero(0). *)
Example C15_resolver_location_example :
  resolve (mkFlags true true true false false) RefineRefuted.w_if
  = Err [mkRErr ENothingMatched (RefineRefuted.s_ 5)]
  /\ In (ENothingMatched, RefineRefuted.s_ 5) (err_sites RefineRefuted.w_if)
  /\ resolve gen_rflags (RefineRefuted.main_ []) = Err [mkRErr ENoStart (span_zero 0)].
Proof. vm_compute. split; [reflexivity|]. split; [|reflexivity]. auto 20. Qed.

Print Assumptions C15_resolve_errors_located.
Print Assumptions C15_resolve_error_spans.
Print Assumptions C15_first_error_is_first.
Print Assumptions C15_reported_error_is_first.

(* ---- type errors (the model of typechecker.rs: coq/Types/Tc.v; proofs: coq/Types/ErrLoc.v) ------------------- *)
From Sylt Require Types.TyGraph Types.Tc Types.ErrLoc.

(* type_errors_located.  Every error the type checker returns (the first one and the further ones of a
   `fail_many`: missing / unknown fields of a blob instantiation) carries a span that occurs in the resolved program:
   ErrLoc.spans_of lists the spans of all statements, expressions, type annotations, parameters, field / variant
   declarations and case patterns, and the definition spans of the variables.  Some of these spans reach the error
   through the type graph (the declaration span of a blob / enum for a wrong type argument, the span of a field for a
   field constraint): ErrLoc.gspans is the invariant that every span stored in the graph is a span of the program.
   The only exception is "no start function", reported at Span::zero(0) as by the resolver. *)
Theorem C15_type_errors_located : forall fuel r e more,
  Sylt.Types.Tc.typecheck fuel r = Sylt.Types.TyGraph.Err e more ->
  Forall (fun x => In (Sylt.Types.TyGraph.e_span x) (Sylt.Types.ErrLoc.spans_of r) \/
                   (Sylt.Types.TyGraph.e_kind x = Sylt.Types.TyGraph.KExotic /\
                    Sylt.Types.TyGraph.e_span x = Sylt.Syntax.Resolved.span_zero 0)) (e :: more).
Proof. exact Sylt.Types.ErrLoc.typecheck_errors_located. Qed.

(* type_first_error_is_first.  The top level is checked statement by statement, in the order check_order: since /repo
   3c0758d the type declarations (blobs and enums) once, in the order name resolution and dependency ordering left them
   in -- since /repo 58eff66 each after the declarations it mentions (DeclOrder.type_decl_order) --, then all the
   statements in that order (check_order stmts = type_decl_order stmts ++ stmts; for a program
   without type declarations it is stmts: C15_type_check_order).  If the statements l1 of that sequence check (state
   s1) and the next one fails, the type checker returns exactly that error, whatever follows; conversely a returned
   error is the error of some statement of the sequence all of whose predecessors checked, or comes from the check of
   `start` after all of them checked. *)
Theorem C15_type_check_order : forall stmts,
  Sylt.Types.TcInv.check_order stmts = (Sylt.Types.DeclOrder.type_decl_order stmts ++ stmts)%list /\
  (forall d, In d (Sylt.Types.DeclOrder.type_decl_order stmts) -> In d stmts /\ Sylt.Types.Tc.is_type_decl d = true) /\
  (forallb (fun st => negb (Sylt.Types.Tc.is_type_decl st)) stmts = true -> Sylt.Types.TcInv.check_order stmts = stmts).
Proof. intros stmts. split; [reflexivity|]. split; [apply Sylt.Types.TcInv.type_decl_order_In|apply Sylt.Types.TcInv.check_order_no_decl]. Qed.

Theorem C15_type_first_error_is_first : forall fuel vars stmts l1 st l2 u s1 e more,
  let kinds := Sylt.Types.Tc.kinds_of vars 1 (FMapPositive.PositiveMap.empty Sylt.Syntax.Resolved.varkind) in
  let outer := fun s => Sylt.Types.Tc.outer_statement kinds (Sylt.Types.Tc.gfix fuel)
                          (Sylt.Types.Tc.afix kinds (Sylt.Types.Tc.gfix fuel) fuel) s Sylt.Types.Tc.ctx_new in
  Sylt.Types.TcInv.check_order stmts = (l1 ++ st :: l2)%list ->
  Sylt.Types.TyGraph.bind (Sylt.Types.TyGraph.init_vars (length vars)) (fun _ => Sylt.Types.TyGraph.iterM outer l1)
    Sylt.Types.TyGraph.empty_st = Sylt.Types.TyGraph.Ok (u, s1) ->
  outer st s1 = Sylt.Types.TyGraph.Err e more ->
  Sylt.Types.Tc.typecheck fuel (Sylt.Syntax.Resolved.mkResolved vars stmts) = Sylt.Types.TyGraph.Err e more.
Proof. exact Sylt.Types.ErrLoc.typecheck_first_error. Qed.

Theorem C15_type_reported_error_is_first : forall fuel vars stmts e more,
  let kinds := Sylt.Types.Tc.kinds_of vars 1 (FMapPositive.PositiveMap.empty Sylt.Syntax.Resolved.varkind) in
  let outer := fun s => Sylt.Types.Tc.outer_statement kinds (Sylt.Types.Tc.gfix fuel)
                          (Sylt.Types.Tc.afix kinds (Sylt.Types.Tc.gfix fuel) fuel) s Sylt.Types.Tc.ctx_new in
  Sylt.Types.Tc.typecheck fuel (Sylt.Syntax.Resolved.mkResolved vars stmts) = Sylt.Types.TyGraph.Err e more ->
  (exists l1 st l2 u s1, Sylt.Types.TcInv.check_order stmts = (l1 ++ st :: l2)%list /\
      Sylt.Types.TyGraph.bind (Sylt.Types.TyGraph.init_vars (length vars)) (fun _ => Sylt.Types.TyGraph.iterM outer l1)
        Sylt.Types.TyGraph.empty_st = Sylt.Types.TyGraph.Ok (u, s1) /\
      outer st s1 = Sylt.Types.TyGraph.Err e more) \/
  (exists u s1, Sylt.Types.TyGraph.bind (Sylt.Types.TyGraph.init_vars (length vars))
                  (fun _ => Sylt.Types.TyGraph.iterM outer (Sylt.Types.TcInv.check_order stmts)) Sylt.Types.TyGraph.empty_st = Sylt.Types.TyGraph.Ok (u, s1)).
Proof. exact Sylt.Types.ErrLoc.typecheck_error_is_first. Qed.

(* the same inside a block (fn expression_block folds over the statements of a function / branch / loop body) *)
Theorem C15_type_block_first_error : forall {A B} (f : B -> A -> Sylt.Types.TyGraph.M B) l1 x l2 b s b1 s1 e more,
  Sylt.Types.TyGraph.foldM f l1 b s = Sylt.Types.TyGraph.Ok (b1, s1) -> f b1 x s1 = Sylt.Types.TyGraph.Err e more ->
  Sylt.Types.TyGraph.foldM f (l1 ++ x :: l2) b s = Sylt.Types.TyGraph.Err e more.
Proof. intros A B. exact (@Sylt.Types.ErrLoc.foldM_first_error A B). Qed.

Print Assumptions C15_type_errors_located.
Print Assumptions C15_type_check_order.
Print Assumptions C15_type_first_error_is_first.
Print Assumptions C15_type_reported_error_is_first.
Print Assumptions C15_type_block_first_error.
