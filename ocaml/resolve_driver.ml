(* Driver for the extracted models of name resolution, dependency ordering and module discovery.
     resolve_driver MODE CASES       one case per line, one canonical line per case

   MODE resolve   line = hex(treef dump)            -> OK <resolved sexp> | ERR k|file|line|c0|c1 ... | PANIC s | OUTOFFUEL
   MODE spec      line = hex(treef dump)            -> same, for ResolveSpec.resolve_spec
   MODE nsfirst   line = hex(treef dump)            -> same, for ResolveSpec.resolve_spec_nsfirst (namespace table before scope for x.f)
   MODE hyp       line = hex(treef dump)            -> HYP wf=t|f no_ns_shadow=t|f tree_ok=t|f flags=tttff   (Wf.wf_ast, NsShadow.no_ns_shadow, TreeOk.tree_ok, gen_rflags: the five flags)
   MODE fixed     line = hex(treef dump)            -> same, for the resolver with all three truncate flags on
   MODE alpha     line = hex(treef dump) TAB hex(treef dump)
                                                    -> ALPHA t|f  (AlphaDef.alpha_ast on the two programs)
   MODE order1    like order, with assignment targets counted as dependencies
   MODE order     line = resolved sexp (tools/resolved_io.py)
                                                    -> ORDER <spans of the ordered statements> | CYCLE <spans> | OUTOFFUEL
                                                       DEPS <var:dep,dep;...>
   MODE modules   line = main TAB std|nostd TAB path=ok|bad:use,use,... TAB ...
                                                    -> MODULES file#id ... | ERRORS n  (+ the use_path of every use)
   The resolved sexp is printed in exactly the format of tools/resolved_io.py. *)
open Resolvemodel
open Rast_reader
open Past_reader

let rec int_of_pos = function XH -> 1 | XO p -> 2 * int_of_pos p | XI p -> 2 * int_of_pos p + 1
let int_of_n = function N0 -> 0 | Npos p -> int_of_pos p
let rec int64_of_pos = function
  | XH -> 1L | XO p -> Int64.mul 2L (int64_of_pos p) | XI p -> Int64.add (Int64.mul 2L (int64_of_pos p)) 1L
let string_of_z = function
  | Z0 -> "0"
  | Zpos p -> Printf.sprintf "%Lu" (int64_of_pos p)
  | Zneg p -> "-" ^ Printf.sprintf "%Lu" (int64_of_pos p)
let rec nat_of_int n = if n <= 0 then O else S (nat_of_int (n - 1))

let string_of_chars (l : char list) = String.of_seq (List.to_seq l)
let hex_of_string s =
  if s = "" then "-" else begin
    let b = Buffer.create (2 * String.length s) in
    String.iter (fun c -> Buffer.add_string b (Printf.sprintf "%02x" (Char.code c))) s;
    Buffer.contents b end
let unhex_line s = rr_unhex s

(* ---- printer of Resolved.v values, format of tools/resolved_io.py ---- *)
let b = Buffer.create (1 lsl 16)
let ps s = Buffer.add_string b s
let p_str (s : char list) = ps "s:"; ps (hex_of_string (string_of_chars s))
let p_n n = ps (string_of_int (int_of_n n))
let p_sp sp =
  ps (Printf.sprintf "(sp %d %d %d %d %d)" (int_of_n sp.sp_file) (int_of_n sp.sp_line0) (int_of_n sp.sp_line1)
        (int_of_n sp.sp_col0) (int_of_n sp.sp_col1))
let p_list f xs = ps "(l"; List.iter (fun x -> ps " "; f x) xs; ps ")"
let p_opt f = function None -> ps "none" | Some x -> ps "(some "; f x; ps ")"
let p_bool x = ps (if x then "t" else "f")
let p_kind = function Const -> ps "Const" | Mutable -> ps "Mutable"
let binop_name = function
  | Nop -> "Nop" | Equals -> "Equals" | NotEquals -> "NotEquals" | Greater -> "Greater"
  | GreaterEqual -> "GreaterEqual" | Less -> "Less" | LessEqual -> "LessEqual" | AssertEq -> "AssertEq"
  | Add -> "Add" | Sub -> "Sub" | Mul -> "Mul" | Div -> "Div" | And -> "And" | Or -> "Or"
let base_name = function
  | BVoid -> "BVoid" | BNil -> "BNil" | BInt -> "BInt" | BFloat -> "BFloat" | BBool -> "BBool" | BStr -> "BStr"
  | BUnknown -> "BUnknown"

let rec p_ty = function
  | TUser (r, args, sp) -> ps "(TUser "; p_n r; ps " "; p_list p_ty args; ps " "; p_sp sp; ps ")"
  | TImplied sp -> ps "(TImplied "; p_sp sp; ps ")"
  | TResolved (bt, sp) -> ps "(TResolved "; ps (base_name bt); ps " "; p_sp sp; ps ")"
  | TGeneric (n, sp) -> ps "(TGeneric "; p_str n; ps " "; p_sp sp; ps ")"
  | TTuple (ts, sp) -> ps "(TTuple "; p_list p_ty ts; ps " "; p_sp sp; ps ")"
  | TList (t, sp) -> ps "(TList "; p_ty t; ps " "; p_sp sp; ps ")"
  | TFn (cons, params, ret, pure, sp) ->
      ps "(TFn ";
      p_list (fun (k, cs) ->
        ps "(c "; p_str k; ps " ";
        p_list (fun c -> ps "(tc "; p_str c.tc_name; ps " "; p_list p_str c.tc_args; ps ")") cs; ps ")") cons;
      ps " "; p_list p_ty params; ps " "; p_ty ret; ps " "; p_bool pure; ps " "; p_sp sp; ps ")"

let rec p_expr = function
  | ERead (v, sp) -> ps "(ERead "; p_n v; ps " "; p_sp sp; ps ")"
  | EVariant (t, v, e, sp) -> ps "(EVariant "; p_n t; ps " "; p_str v; ps " "; p_expr e; ps " "; p_sp sp; ps ")"
  | ECall (f, args, sp) -> ps "(ECall "; p_expr f; ps " "; p_list p_expr args; ps " "; p_sp sp; ps ")"
  | EBlobAccess (e, f, sp) -> ps "(EBlobAccess "; p_expr e; ps " "; p_str f; ps " "; p_sp sp; ps ")"
  | EIndex (e, i, sp) -> ps "(EIndex "; p_expr e; ps " "; p_expr i; ps " "; p_sp sp; ps ")"
  | EBinOp (op, a, c, sp) -> ps "(EBinOp "; ps (binop_name op); ps " "; p_expr a; ps " "; p_expr c; ps " "; p_sp sp; ps ")"
  | EUniOp (op, a, sp) -> ps "(EUniOp "; ps (match op with Neg -> "Neg" | Not -> "Not"); ps " "; p_expr a; ps " "; p_sp sp; ps ")"
  | EIf (brs, sp) ->
      ps "(EIf ";
      p_list (fun (IfBranch (c, body, s)) -> ps "(IfBranch "; p_opt p_expr c; ps " "; p_stmts body; ps " "; p_sp s; ps ")") brs;
      ps " "; p_sp sp; ps ")"
  | ECase (m, brs, ft, sp) ->
      ps "(ECase "; p_expr m; ps " ";
      p_list (fun (CaseBranch (p, psp, v, body, s)) ->
        ps "(CaseBranch "; p_str p; ps " "; p_sp psp; ps " "; p_opt p_n v; ps " "; p_stmts body; ps " "; p_sp s; ps ")") brs;
      ps " "; p_opt p_stmts ft; ps " "; p_sp sp; ps ")"
  | EFunction (n, params, ret, body, pure, sp) ->
      ps "(EFunction "; p_str n; ps " ";
      p_list (fun (((pn, v), s), t) -> ps "(p "; p_str pn; ps " "; p_n v; ps " "; p_sp s; ps " "; p_ty t; ps ")") params;
      ps " "; p_ty ret; ps " "; p_stmts body; ps " "; p_bool pure; ps " "; p_sp sp; ps ")"
  | EBlob (bl, fs, sv, sp) ->
      ps "(EBlob "; p_n bl; ps " ";
      p_list (fun (n, e) -> ps "(f "; p_str n; ps " "; p_expr e; ps ")") fs;
      ps " "; p_n sv; ps " "; p_sp sp; ps ")"
  | ECollection (c, vs, sp) ->
      ps "(ECollection "; ps (match c with CTuple -> "CTuple" | CList -> "CList"); ps " "; p_list p_expr vs; ps " "; p_sp sp; ps ")"
  | EFloat (r, sp) -> ps "(EFloat "; p_str r; ps " "; p_sp sp; ps ")"
  | EInt (z, sp) -> ps "(EInt "; ps (string_of_z z); ps " "; p_sp sp; ps ")"
  | EStr (s, sp) -> ps "(EStr "; p_str s; ps " "; p_sp sp; ps ")"
  | EBool (x, sp) -> ps "(EBool "; p_bool x; ps " "; p_sp sp; ps ")"
  | ENil sp -> ps "(ENil "; p_sp sp; ps ")"

and p_stmts ss = p_list p_stmt ss

and p_fields fs = p_list (fun (n, (s, t)) -> ps "(fd "; p_str n; ps " "; p_sp s; ps " "; p_ty t; ps ")") fs

and p_stmt = function
  | SAssignment (op, t, v, sp) -> ps "(SAssignment "; ps (binop_name op); ps " "; p_expr t; ps " "; p_expr v; ps " "; p_sp sp; ps ")"
  | SBlob (n, v, sp, vars, fs, ext) ->
      ps "(SBlob "; p_str n; ps " "; p_n v; ps " "; p_sp sp; ps " "; p_list p_str vars; ps " "; p_fields fs; ps " "; p_bool ext; ps ")"
  | SEnum (n, v, sp, vars, fs) ->
      ps "(SEnum "; p_str n; ps " "; p_n v; ps " "; p_sp sp; ps " "; p_list p_str vars; ps " "; p_fields fs; ps ")"
  | SDefinition (n, v, k, t, e, sp) ->
      ps "(SDefinition "; p_str n; ps " "; p_n v; ps " "; p_kind k; ps " "; p_ty t; ps " "; p_expr e; ps " "; p_sp sp; ps ")"
  | SExternalDefinition (n, v, k, t, sp) ->
      ps "(SExternalDefinition "; p_str n; ps " "; p_n v; ps " "; p_kind k; ps " "; p_ty t; ps " "; p_sp sp; ps ")"
  | SLoop (c, body, sp) -> ps "(SLoop "; p_expr c; ps " "; p_stmts body; ps " "; p_sp sp; ps ")"
  | SBreak sp -> ps "(SBreak "; p_sp sp; ps ")"
  | SContinue sp -> ps "(SContinue "; p_sp sp; ps ")"
  | SRet (v, sp) -> ps "(SRet "; p_opt p_expr v; ps " "; p_sp sp; ps ")"
  | SBlock (ss, sp) -> ps "(SBlock "; p_stmts ss; ps " "; p_sp sp; ps ")"
  | SStatementExpression (e, sp) -> ps "(SStatementExpression "; p_expr e; ps " "; p_sp sp; ps ")"
  | SUnreachable sp -> ps "(SUnreachable "; p_sp sp; ps ")"

let p_var v =
  ps "(var "; p_n v.v_id; ps " "; p_str v.v_name; ps " "; p_sp v.v_def; ps " "; p_bool v.v_global; ps " "; p_kind v.v_kind; ps ")"

let p_resolved r = ps "(resolved "; p_list p_var r.r_vars; ps " "; p_stmts r.r_stmts; ps ")"

let ekind_name = function
  | ENamespaceFound -> "NamespaceFound" | ENothingMatched -> "NothingMatched" | ENotUserType -> "NotUserType"
  | EVariableNotType -> "VariableNotType" | ENoType -> "NoType" | ENamespaceNotType -> "NamespaceNotType"
  | EVariantNotRead -> "VariantNotRead" | ECollisionDef -> "CollisionDef" | ECollisionUse -> "CollisionUse"
  | ECollisionFrom -> "CollisionFrom" | ENoNamespace -> "NoNamespace" | ECannotFind -> "CannotFind"
  | ENoStart -> "NoStart"

let file_text = function File p -> string_of_chars p | Lib l -> "lib:" ^ string_of_chars l

let print_result (ast : pmodule list) (r : resolved res) =
  Buffer.clear b;
  (match r with
   | Ok r -> ps "OK "; p_resolved r
   | Err alts ->
       ps "ERR";
       List.iter (fun e ->
         let sp = e.e_span in
         let file = (match List.find_opt (fun m -> m.m_file_id = sp.sp_file) ast with
                     | Some m -> file_text m.m_file | None -> "?") in
         ps (Printf.sprintf " %s|%s|%d|%d|%d" (ekind_name e.e_kind) file (int_of_n sp.sp_line0)
               (int_of_n sp.sp_col0) (int_of_n sp.sp_col1))) alts
   | Panic s -> ps "PANIC "; ps (string_of_chars s)
   | OutOfFuel -> ps "OUTOFFUEL");
  print_endline (Buffer.contents b)

let () =
  let mode = Sys.argv.(1) in
  let ic = open_in Sys.argv.(2) in
  (try
    while true do
      let line = input_line ic in
      (try
        (match mode with
         | "resolve" ->
             let ast = read_past (unhex_line line) in
             print_result ast (resolve_pinned ast)
         | "fixed" ->
             let ast = read_past (unhex_line line) in
             print_result ast (resolve_fixed ast)
         | "spec" ->
             let ast = read_past (unhex_line line) in
             print_result ast (spec_pinned ast)
         | "nsfirst" ->
             let ast = read_past (unhex_line line) in
             print_result ast (nsfirst_pinned ast)
         | "hyp" ->
             (* the hypotheses of C09_resolve_refines_modulo_ns, and the flags of this run *)
             let ast = read_past (unhex_line line) in
             let bs x = if x then "t" else "f" in
             print_endline (Printf.sprintf "HYP wf=%s no_ns_shadow=%s tree_ok=%s use_sep=%s arrows_simple=%s flags=%s%s%s%s%s" (bs (wf_ast ast)) (bs (no_ns_shadow_pinned ast))
               (bs (tree_ok ast)) (bs (use_names_sep ast)) (bs (arrows_simple ast))
               (bs gen_rflags.if_truncates) (bs gen_rflags.case_truncates) (bs gen_rflags.else_truncates)
               (bs gen_rflags.access_local_first) (bs gen_rflags.imports_fixpoint))
         | "order" | "order1" ->
             (* order1: the variant of statement_dependencies that counts assignment targets *)
             let r = read_resolved line in
             Buffer.clear b;
             (match init_order (if mode = "order1" then true else gen_assign_target_deps) r.r_stmts with
              | OOk l -> ps "ORDER "; p_stmts l
              | OCycle c -> ps "CYCLE "; p_list (fun s -> p_sp (stmt_span s)) c
              | OOutOfFuel -> ps "OUTOFFUEL");
             print_endline (Buffer.contents b)
         | "anndeps" ->
             (* the hypothesis of C08_order_then_backend_erase on a REAL resolved program *)
             let r = read_resolved line in
             print_endline ("ANNDEPS " ^ (if ann_deps_ok gen_assign_target_deps r.r_stmts then "t" else "f"))
         | "anntypes" ->
             (* the syntactic condition that implies it (C08_ann_types_only_deps_ok), needed on the annotated side only *)
             let r = read_resolved line in
             print_endline ("ANNTYPES " ^ (if ann_types_only gen_assign_target_deps r.r_stmts then "t" else "f"))
         | "modules" ->
             (match String.split_on_char '\t' line with
              | main :: std :: files ->
                  let fm = List.map (fun f ->
                    let k = String.index f '=' in
                    let path = String.sub f 0 k in
                    let rest = String.sub f (k + 1) (String.length f - k - 1) in
                    let (kind, uses) = (match String.index_opt rest ':' with
                      | Some j -> (String.sub rest 0 j,
                                   List.filter (fun u -> u <> "") (String.split_on_char ',' (String.sub rest (j + 1) (String.length rest - j - 1))))
                      | None -> (rest, [])) in
                    (rr_chars path,
                     (match kind with
                      | "conflict" -> FConflict
                      | "bad" -> FSource (false, List.map rr_chars uses)
                      | _ -> FSource (true, List.map rr_chars uses)))) files in
                  let file_text2 = function File p -> "file:" ^ string_of_chars p | Lib l -> "lib:" ^ string_of_chars l in
                  (match tree gen_std_uses fm (rr_chars main) (std = "std") with
                   | TOk ms -> print_endline ("MODULES" ^ String.concat "" (List.map (fun (f, id) -> Printf.sprintf " %s#%d" (file_text2 f) (int_of_n id)) ms))
                   | TErr fs -> print_endline ("ERRORS" ^ String.concat "" (List.map (fun f -> " " ^ file_text2 f) fs))
                   | TOutOfFuel -> print_endline "OUTOFFUEL")
              | _ -> print_endline "BADCASE")
         | "respell" ->
             (* line as for `modules`, the file map keyed by BARE paths: the check of C12_tree_prefix for the four
                spellings of the project directory -> RESPELL tttt *)
             (match String.split_on_char '\t' line with
              | main :: _ :: files ->
                  let fm = List.map (fun f ->
                    let k = String.index f '=' in
                    let path = String.sub f 0 k in
                    let rest = String.sub f (k + 1) (String.length f - k - 1) in
                    let (kind, uses) = (match String.index_opt rest ':' with
                      | Some j -> (String.sub rest 0 j,
                                   List.filter (fun u -> u <> "") (String.split_on_char ',' (String.sub rest (j + 1) (String.length rest - j - 1))))
                      | None -> (rest, [])) in
                    (rr_chars path,
                     (match kind with
                      | "conflict" -> FConflict
                      | "bad" -> FSource (false, List.map rr_chars uses)
                      | _ -> FSource (true, List.map rr_chars uses)))) files in
                  let libs = List.map fst gen_std_uses in
                  print_endline ("RESPELL " ^ String.concat "" (List.map (fun p ->
                    if respell_okb libs (rr_chars p) fm (rr_chars main) then "t" else "f") ["/p/"; ""; "./"; "proj/"]))
              | _ -> print_endline "BADCASE")
         | "usepath" ->
             (* line = root TAB cur(file:..|lib:..) TAB path *)
             (match String.split_on_char '\t' line with
              | [root; cur; path] ->
                  let cur = (if String.length cur >= 4 && String.sub cur 0 4 = "lib:" then Lib (rr_chars (String.sub cur 4 (String.length cur - 4)))
                             else File (rr_chars (String.sub cur 5 (String.length cur - 5)))) in
                  let nm = (match implicit_name (rr_chars path) with Some n -> string_of_chars n | None -> "-") in
                  (match use_path gen_std_libs (rr_chars root) cur (rr_chars path) with
                   | Some (File p) -> print_endline ("USE file:" ^ string_of_chars p ^ " " ^ nm)
                   | Some (Lib l) -> print_endline ("USE lib:" ^ string_of_chars l ^ " " ^ nm)
                   | None -> print_endline "USE error")
              | _ -> print_endline "BADCASE")
         | _ -> print_endline "BADMODE")
      with
      | Unsupported w -> print_endline ("UNSUPPORTED " ^ w)
      | Failure w -> print_endline ("READERROR " ^ w)
      | Not_found -> print_endline "READERROR not_found"
      | Invalid_argument w -> print_endline ("READERROR " ^ w))
    done
  with End_of_file -> ());
  close_in ic
